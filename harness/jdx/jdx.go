// Package jdx bridges harness values and the jd v2 public API.
package jdx

import (
	"fmt"
	"strconv"
	"strings"

	jd "github.com/josephburnett/jd/v2"

	"verifjd/ref"
	"verifjd/val"
)

type V = val.V

// Node parses the JSON text of v with jd (a fresh node every call).
func Node(v V) jd.JsonNode {
	n, err := jd.ReadJsonString(val.JSON(v))
	if err != nil {
		panic(fmt.Sprintf("jdx.Node(%s): %v", val.JSON(v), err))
	}
	return n
}

// NodeText parses JSON text with jd.
func NodeText(s string) jd.JsonNode {
	n, err := jd.ReadJsonString(s)
	if err != nil {
		panic(fmt.Sprintf("jdx.NodeText(%q): %v", s, err))
	}
	return n
}

// FromNode converts a jd node into a harness value through its JSON text.
func FromNode(n jd.JsonNode) (V, error) {
	return val.Parse(n.Json())
}

// Options translates an option-set name into jd options.
//
//	list | set | mset | setkeys:k1,k2 | merge | set+merge | mset+merge | prec:<eps>
func Options(name string) []jd.Option {
	var out []jd.Option
	for _, part := range strings.Split(name, "+") {
		switch {
		case part == "list" || part == "":
		case part == "set":
			out = append(out, jd.SET)
		case part == "mset":
			out = append(out, jd.MULTISET)
		case part == "merge":
			out = append(out, jd.MERGE)
		case strings.HasPrefix(part, "setkeys:"):
			out = append(out, jd.SetKeys(strings.Split(strings.TrimPrefix(part, "setkeys:"), ",")...))
		case strings.HasPrefix(part, "prec:"):
			f, err := strconv.ParseFloat(strings.TrimPrefix(part, "prec:"), 64)
			if err != nil {
				panic(err)
			}
			out = append(out, jd.Precision(f))
		default:
			panic("unknown option set " + name)
		}
	}
	return out
}

// Reading is how arrays are compared under the option set.
func Reading(name string) val.Reading {
	for _, part := range strings.Split(name, "+") {
		switch {
		case part == "set" || strings.HasPrefix(part, "setkeys:"):
			return val.Set
		case part == "mset":
			return val.Multiset
		}
	}
	return val.List
}

func IsMerge(name string) bool {
	for _, part := range strings.Split(name, "+") {
		if part == "merge" {
			return true
		}
	}
	return false
}

// SetKeysOf returns the keys of a setkeys option set (nil otherwise).
func SetKeysOf(name string) []string {
	for _, part := range strings.Split(name, "+") {
		if strings.HasPrefix(part, "setkeys:") {
			return strings.Split(strings.TrimPrefix(part, "setkeys:"), ",")
		}
	}
	return nil
}

func Precision(name string) (float64, bool) {
	for _, part := range strings.Split(name, "+") {
		if strings.HasPrefix(part, "prec:") {
			f, _ := strconv.ParseFloat(strings.TrimPrefix(part, "prec:"), 64)
			return f, true
		}
	}
	return 0, false
}

func nodeV(n jd.JsonNode) (V, error) {
	if n == nil {
		return nil, fmt.Errorf("nil node")
	}
	return val.Parse(n.Json())
}

func nodesV(ns []jd.JsonNode) ([]V, error) {
	out := make([]V, 0, len(ns))
	for _, n := range ns {
		v, err := nodeV(n)
		if err != nil {
			return nil, err
		}
		out = append(out, v)
	}
	return out, nil
}

// ToHunks reads a jd diff through its exported fields.
func ToHunks(d jd.Diff) ([]ref.Hunk, error) {
	out := make([]ref.Hunk, 0, len(d))
	for _, e := range d {
		h := ref.Hunk{Merge: e.Metadata.Merge}
		for _, pe := range e.Path {
			switch x := pe.(type) {
			case jd.PathKey:
				h.Path = append(h.Path, ref.PathElem{Kind: ref.Key, Key: string(x)})
			case jd.PathIndex:
				h.Path = append(h.Path, ref.PathElem{Kind: ref.Index, Index: int(x)})
			case jd.PathSet:
				h.Path = append(h.Path, ref.PathElem{Kind: ref.SetElem})
			case jd.PathMultiset:
				h.Path = append(h.Path, ref.PathElem{Kind: ref.MultisetElem})
			case jd.PathSetKeys:
				ks := map[string]V{}
				for k, n := range x {
					v, err := nodeV(n)
					if err != nil {
						return nil, err
					}
					ks[k] = v
				}
				h.Path = append(h.Path, ref.PathElem{Kind: ref.SetKeys, Keys: ks})
			case jd.PathMultisetKeys:
				ks := map[string]V{}
				for k, n := range x {
					v, err := nodeV(n)
					if err != nil {
						return nil, err
					}
					ks[k] = v
				}
				h.Path = append(h.Path, ref.PathElem{Kind: ref.MultisetKeys, Keys: ks})
			default:
				return nil, fmt.Errorf("unknown path element %T", pe)
			}
		}
		var err error
		if h.Before, err = nodesV(e.Before); err != nil {
			return nil, err
		}
		if h.Remove, err = nodesV(e.Remove); err != nil {
			return nil, err
		}
		if h.Add, err = nodesV(e.Add); err != nil {
			return nil, err
		}
		if h.After, err = nodesV(e.After); err != nil {
			return nil, err
		}
		out = append(out, h)
	}
	return out, nil
}

func nodes(vs []V) []jd.JsonNode {
	if vs == nil {
		return nil
	}
	out := make([]jd.JsonNode, len(vs))
	for i, v := range vs {
		out[i] = Node(v)
	}
	return out
}

// FromHunks builds a jd diff from public fields only.
func FromHunks(hs []ref.Hunk) jd.Diff {
	d := make(jd.Diff, 0, len(hs))
	for _, h := range hs {
		e := jd.DiffElement{Metadata: jd.Metadata{Merge: h.Merge}}
		e.Path = jd.Path{}
		for _, pe := range h.Path {
			switch pe.Kind {
			case ref.Key:
				e.Path = append(e.Path, jd.PathKey(pe.Key))
			case ref.Index:
				e.Path = append(e.Path, jd.PathIndex(pe.Index))
			case ref.SetElem:
				e.Path = append(e.Path, jd.PathSet{})
			case ref.MultisetElem:
				e.Path = append(e.Path, jd.PathMultiset{})
			case ref.SetKeys:
				m := jd.PathSetKeys{}
				for k, v := range pe.Keys {
					m[k] = Node(v)
				}
				e.Path = append(e.Path, m)
			case ref.MultisetKeys:
				m := jd.PathMultisetKeys{}
				for k, v := range pe.Keys {
					m[k] = Node(v)
				}
				e.Path = append(e.Path, m)
			}
		}
		e.Before = nodes(h.Before)
		e.Remove = nodes(h.Remove)
		e.Add = nodes(h.Add)
		e.After = nodes(h.After)
		d = append(d, e)
	}
	return d
}

// Outcome of a guarded call.
type Outcome struct {
	Node     jd.JsonNode
	Err      error
	Panicked bool
	PanicMsg string
}

func (o Outcome) OK() bool { return !o.Panicked && o.Err == nil }

// Patch applies d to n, converting a panic into an outcome.
func Patch(n jd.JsonNode, d jd.Diff) (o Outcome) {
	defer func() {
		if r := recover(); r != nil {
			o = Outcome{Panicked: true, PanicMsg: fmt.Sprint(r)}
		}
	}()
	res, err := n.Patch(d)
	return Outcome{Node: res, Err: err}
}

// Guard runs f and reports a panic as a message.
func Guard(f func()) (panicMsg string, panicked bool) {
	defer func() {
		if r := recover(); r != nil {
			panicMsg, panicked = fmt.Sprint(r), true
		}
	}()
	f()
	return "", false
}

// DiffSafe computes a.Diff(b, opts) guarding against panics.
func DiffSafe(a, b jd.JsonNode, opts []jd.Option) (d jd.Diff, panicMsg string, panicked bool) {
	panicMsg, panicked = Guard(func() { d = a.Diff(b, opts...) })
	return
}
