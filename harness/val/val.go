// Package val is the harness-owned value tree, independent of jd.
//
// A V is one of: nil (JSON null), bool, float64, string, []V (array),
// map[string]V (object) or Void (absence of a document).
package val

import (
	"bytes"
	"encoding/json"
	"fmt"
	"math"
	"sort"
	"strconv"
	"strings"
)

type V = interface{}

type VoidT struct{}

var Void = VoidT{}

func IsVoid(v V) bool { _, ok := v.(VoidT); return ok }

// Parse reads JSON text. Blank text is the void document.
func Parse(s string) (V, error) {
	if strings.TrimSpace(s) == "" {
		return Void, nil
	}
	var x interface{}
	if err := json.Unmarshal([]byte(s), &x); err != nil {
		return nil, err
	}
	return norm(x), nil
}

func MustParse(s string) V {
	v, err := Parse(s)
	if err != nil {
		panic(fmt.Sprintf("val.MustParse(%q): %v", s, err))
	}
	return v
}

func norm(x interface{}) V {
	switch t := x.(type) {
	case []interface{}:
		out := make([]V, len(t))
		for i, e := range t {
			out[i] = norm(e)
		}
		return out
	case map[string]interface{}:
		out := make(map[string]V, len(t))
		for k, e := range t {
			out[k] = norm(e)
		}
		return out
	default:
		return x
	}
}

// JSON renders v as compact JSON with sorted keys and no HTML escaping.
// Void renders as the empty string.
func JSON(v V) string {
	if IsVoid(v) {
		return ""
	}
	var b bytes.Buffer
	writeJSON(&b, v)
	return b.String()
}

func writeJSON(b *bytes.Buffer, v V) {
	switch t := v.(type) {
	case nil:
		b.WriteString("null")
	case bool:
		if t {
			b.WriteString("true")
		} else {
			b.WriteString("false")
		}
	case float64:
		b.WriteString(numText(t))
	case string:
		b.WriteString(quote(t))
	case []V:
		b.WriteByte('[')
		for i, e := range t {
			if i > 0 {
				b.WriteByte(',')
			}
			writeJSON(b, e)
		}
		b.WriteByte(']')
	case map[string]V:
		b.WriteByte('{')
		for i, k := range Keys(t) {
			if i > 0 {
				b.WriteByte(',')
			}
			b.WriteString(quote(k))
			b.WriteByte(':')
			writeJSON(b, t[k])
		}
		b.WriteByte('}')
	case VoidT:
		panic("void inside a document")
	default:
		panic(fmt.Sprintf("val: unsupported type %T", v))
	}
}

func quote(s string) string {
	var b bytes.Buffer
	enc := json.NewEncoder(&b)
	enc.SetEscapeHTML(false)
	if err := enc.Encode(s); err != nil {
		panic(err)
	}
	return strings.TrimSuffix(b.String(), "\n")
}

// numText renders a float64 the way encoding/json does.
func numText(f float64) string {
	if math.IsNaN(f) || math.IsInf(f, 0) {
		panic("non-finite number")
	}
	out, err := json.Marshal(f)
	if err != nil {
		panic(err)
	}
	return string(out)
}

func Keys(m map[string]V) []string {
	ks := make([]string, 0, len(m))
	for k := range m {
		ks = append(ks, k)
	}
	sort.Strings(ks)
	return ks
}

func Clone(v V) V {
	switch t := v.(type) {
	case []V:
		out := make([]V, len(t))
		for i, e := range t {
			out[i] = Clone(e)
		}
		return out
	case map[string]V:
		out := make(map[string]V, len(t))
		for k, e := range t {
			out[k] = Clone(e)
		}
		return out
	default:
		return v
	}
}

// Reading says how arrays are compared.
type Reading int

const (
	List Reading = iota
	Set
	Multiset
)

func (r Reading) String() string {
	switch r {
	case Set:
		return "set"
	case Multiset:
		return "multiset"
	}
	return "list"
}

// Canon is a canonical, type-tagged string: two values denote the same
// value under the reading iff their canonical strings are equal. Numbers
// are compared exactly (-0 and 0 are the same number).
func Canon(v V, r Reading) string {
	var b strings.Builder
	canon(&b, v, r)
	return b.String()
}

func canon(b *strings.Builder, v V, r Reading) {
	switch t := v.(type) {
	case VoidT:
		b.WriteString("V")
	case nil:
		b.WriteString("N")
	case bool:
		if t {
			b.WriteString("T")
		} else {
			b.WriteString("F")
		}
	case float64:
		if t == 0 {
			t = 0
		}
		b.WriteString("#")
		b.WriteString(strconv.FormatFloat(t, 'g', -1, 64))
		b.WriteString(";")
	case string:
		b.WriteString("S")
		b.WriteString(strconv.Itoa(len(t)))
		b.WriteString(":")
		b.WriteString(t)
	case []V:
		parts := make([]string, len(t))
		for i, e := range t {
			parts[i] = Canon(e, r)
		}
		switch r {
		case Set:
			sort.Strings(parts)
			parts = dedup(parts)
		case Multiset:
			sort.Strings(parts)
		}
		b.WriteString("A")
		b.WriteString(strconv.Itoa(len(parts)))
		b.WriteString("(")
		for _, p := range parts {
			b.WriteString(p)
			b.WriteString(",")
		}
		b.WriteString(")")
	case map[string]V:
		b.WriteString("O")
		b.WriteString(strconv.Itoa(len(t)))
		b.WriteString("{")
		for _, k := range Keys(t) {
			b.WriteString(strconv.Itoa(len(k)))
			b.WriteString(":")
			b.WriteString(k)
			b.WriteString("=")
			canon(b, t[k], r)
			b.WriteString(",")
		}
		b.WriteString("}")
	default:
		panic(fmt.Sprintf("val: unsupported type %T", v))
	}
}

func dedup(sorted []string) []string {
	out := sorted[:0]
	for i, s := range sorted {
		if i == 0 || s != sorted[i-1] {
			out = append(out, s)
		}
	}
	return out
}

// Equal is deep equality under the reading.
func Equal(a, b V, r Reading) bool { return Canon(a, r) == Canon(b, r) }

// EqualPrec is ordered deep equality with numbers compared within eps.
func EqualPrec(a, b V, eps float64) bool {
	switch x := a.(type) {
	case VoidT:
		return IsVoid(b)
	case nil:
		return b == nil
	case bool:
		y, ok := b.(bool)
		return ok && x == y
	case float64:
		y, ok := b.(float64)
		return ok && math.Abs(x-y) <= eps
	case string:
		y, ok := b.(string)
		return ok && x == y
	case []V:
		y, ok := b.([]V)
		if !ok || len(x) != len(y) {
			return false
		}
		for i := range x {
			if !EqualPrec(x[i], y[i], eps) {
				return false
			}
		}
		return true
	case map[string]V:
		y, ok := b.(map[string]V)
		if !ok || len(x) != len(y) {
			return false
		}
		for k, xv := range x {
			yv, ok := y[k]
			if !ok || !EqualPrec(xv, yv, eps) {
				return false
			}
		}
		return true
	}
	panic(fmt.Sprintf("val: unsupported type %T", a))
}

// Kind names the JSON type.
func Kind(v V) string {
	switch v.(type) {
	case VoidT:
		return "void"
	case nil:
		return "null"
	case bool:
		return "bool"
	case float64:
		return "number"
	case string:
		return "string"
	case []V:
		return "array"
	case map[string]V:
		return "object"
	}
	return "?"
}

// HasNull reports whether a null occurs anywhere in v.
func HasNull(v V) bool {
	switch t := v.(type) {
	case nil:
		return true
	case []V:
		for _, e := range t {
			if HasNull(e) {
				return true
			}
		}
	case map[string]V:
		for _, e := range t {
			if HasNull(e) {
				return true
			}
		}
	}
	return false
}

// Depth of nesting: scalars 0.
func Depth(v V) int {
	d := 0
	switch t := v.(type) {
	case []V:
		for _, e := range t {
			if x := Depth(e) + 1; x > d {
				d = x
			}
		}
		if d == 0 {
			d = 1
		}
	case map[string]V:
		for _, e := range t {
			if x := Depth(e) + 1; x > d {
				d = x
			}
		}
		if d == 0 {
			d = 1
		}
	}
	return d
}

// FNV64 fingerprint of a string.
func FNV64(s string) uint64 {
	h := uint64(14695981039346656037)
	for i := 0; i < len(s); i++ {
		h ^= uint64(s[i])
		h *= 1099511628211
	}
	return h
}
