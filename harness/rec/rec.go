// Package rec records what a run of a check covered and writes replay files.
package rec

import (
	"bufio"
	"encoding/binary"
	"encoding/json"
	"fmt"
	"os"
	"path/filepath"
	"sort"
	"strings"

	"verifjd/val"
)

// Violation is what a check function returns when the property fails.
// KnownID names the known finding whose narrow predicate the failing case
// satisfies ("" if none).
type Violation struct {
	Msg     string
	KnownID string
}

func (v *Violation) Error() string { return v.Msg }

func Violated(f string, a ...interface{}) error {
	return &Violation{Msg: fmt.Sprintf(f, a...)}
}

func Known(id string, f string, a ...interface{}) error {
	return &Violation{Msg: fmt.Sprintf(f, a...), KnownID: id}
}

// Rec accumulates coverage for one (property, leg, shard).
type Rec struct {
	Prop, Leg   string
	Evals       int64
	nontrivial  map[uint64]struct{}
	Classes     map[string]int64
	Excluded    map[string]int64
	Samples     []interface{}
	sampleEvery int64
	maxSamples  int
	Exhaustive  bool
	Notes       map[string]interface{}
	// NoSuppress makes known findings count as failures (used when
	// replaying a known-finding input).
	NoSuppress bool
	findings   map[string]bool // ids listed as finding: for this property
}

func New(prop, leg string) *Rec {
	r := &Rec{
		Prop: prop, Leg: leg,
		nontrivial:  map[uint64]struct{}{},
		Classes:     map[string]int64{},
		Excluded:    map[string]int64{},
		maxSamples:  6,
		sampleEvery: 1,
		Notes:       map[string]interface{}{},
	}
	r.findings = ListedFindings(prop)
	return r
}

// Case counts one evaluated case. fp identifies the case (canonical
// serialisation of inputs and configuration).
func (r *Rec) Case(fp string, nontrivial bool, classes ...string) {
	r.Evals++
	if nontrivial {
		r.nontrivial[val.FNV64(fp)] = struct{}{}
	}
	for _, c := range classes {
		if c != "" {
			r.Classes[c]++
		}
	}
}

func (r *Rec) Class(c string) { r.Classes[c]++ }

// Sample keeps a few cases, spread over the run (1st, 2nd, 4th, 8th ...
// offered sample).
func (r *Rec) Sample(x interface{}) {
	r.sampleEvery++
	n := r.sampleEvery - 1
	if n&(n-1) != 0 {
		return
	}
	if len(r.Samples) >= r.maxSamples {
		// keep the first two, rotate the rest
		copy(r.Samples[2:], r.Samples[3:])
		r.Samples[len(r.Samples)-1] = x
		return
	}
	r.Samples = append(r.Samples, x)
}

func (r *Rec) DistinctNontrivial() int { return len(r.nontrivial) }

// Suppress reports whether err is a violation that matches a finding listed
// in known-findings.txt; such cases are counted and not reported again.
func (r *Rec) Suppress(err error) bool {
	v, ok := err.(*Violation)
	if !ok || v.KnownID == "" || r.NoSuppress {
		return false
	}
	if r.findings[v.KnownID] {
		r.Excluded[v.KnownID]++
		return true
	}
	return false
}

func outDir() string {
	d := os.Getenv("VERIF_OUT_DIR")
	if d == "" {
		d = os.TempDir()
	}
	return d
}

func shardName() string {
	s := os.Getenv("VERIF_SHARD")
	if s == "" {
		s = "0"
	}
	return strings.ReplaceAll(s, "/", "of")
}

type shardFile struct {
	Prop       string                 `json:"property"`
	Leg        string                 `json:"leg"`
	Shard      string                 `json:"shard"`
	Evals      int64                  `json:"evaluations"`
	Distinct   int                    `json:"distinct_nontrivial"`
	Classes    map[string]int64       `json:"classes"`
	Excluded   map[string]int64       `json:"excluded_known"`
	Samples    []interface{}          `json:"samples"`
	Exhaustive bool                   `json:"exhaustive"`
	Notes      map[string]interface{} `json:"notes,omitempty"`
	FpFile     string                 `json:"fp_file"`
}

// Flush writes the shard summary and the fingerprint file.
func (r *Rec) Flush() {
	base := filepath.Join(outDir(), fmt.Sprintf("shard-%s-%s-%s", r.Prop, r.Leg, shardName()))
	fpPath := base + ".fp"
	f, err := os.Create(fpPath)
	if err == nil {
		w := bufio.NewWriter(f)
		keys := make([]uint64, 0, len(r.nontrivial))
		for k := range r.nontrivial {
			keys = append(keys, k)
		}
		sort.Slice(keys, func(i, j int) bool { return keys[i] < keys[j] })
		var buf [8]byte
		for _, k := range keys {
			binary.LittleEndian.PutUint64(buf[:], k)
			w.Write(buf[:])
		}
		w.Flush()
		f.Close()
	}
	sf := shardFile{
		Prop: r.Prop, Leg: r.Leg, Shard: shardName(), Evals: r.Evals,
		Distinct: len(r.nontrivial), Classes: r.Classes, Excluded: r.Excluded,
		Samples: r.Samples, Exhaustive: r.Exhaustive, Notes: r.Notes, FpFile: fpPath,
	}
	out, _ := json.MarshalIndent(sf, "", " ")
	os.WriteFile(base+".json", out, 0o644)
}

// ReplayFile is the plain, library-free description of one failing case.
type ReplayFile struct {
	Prop    string          `json:"property"`
	Leg     string          `json:"leg"`
	Message string          `json:"message"`
	KnownID string          `json:"known_id,omitempty"`
	Case    json.RawMessage `json:"case"`
}

// WriteFail stores the failing case; later failures of the same shard
// overwrite earlier ones, so after shrinking the file holds the minimal
// case.
func (r *Rec) WriteFail(c interface{}, err error) string {
	raw, _ := json.Marshal(c)
	rf := ReplayFile{Prop: r.Prop, Leg: r.Leg, Message: err.Error(), Case: raw}
	if v, ok := err.(*Violation); ok {
		rf.KnownID = v.KnownID
	}
	out, _ := json.MarshalIndent(rf, "", " ")
	p := filepath.Join(outDir(), fmt.Sprintf("fail-%s-%s-%s.json", r.Prop, r.Leg, shardName()))
	os.WriteFile(p, out, 0o644)
	return p
}

// ---------------------------------------------------------------- known findings

type Entry struct {
	Fixed  bool
	Prop   string
	ID     string
	Input  string // path relative to /verif
	Commit string
	Text   string
}

func verifRoot() string {
	if d := os.Getenv("VERIF_ROOT"); d != "" {
		return d
	}
	return "/verif"
}

func VerifRoot() string { return verifRoot() }

// Entries parses known-findings.txt. The file is only ever read.
func Entries() []Entry {
	data, err := os.ReadFile(filepath.Join(verifRoot(), "known-findings.txt"))
	if err != nil {
		return nil
	}
	var out []Entry
	for _, line := range strings.Split(string(data), "\n") {
		line = strings.TrimSpace(line)
		var e Entry
		switch {
		case strings.HasPrefix(line, "finding:"):
			line = strings.TrimSpace(strings.TrimPrefix(line, "finding:"))
		case strings.HasPrefix(line, "fixed:"):
			e.Fixed = true
			line = strings.TrimSpace(strings.TrimPrefix(line, "fixed:"))
		default:
			continue
		}
		var rest []string
		for _, tok := range strings.Fields(line) {
			switch {
			case strings.HasPrefix(tok, "property=") && e.Prop == "":
				e.Prop = strings.TrimPrefix(tok, "property=")
			case strings.HasPrefix(tok, "id=") && e.ID == "":
				e.ID = strings.TrimPrefix(tok, "id=")
			case strings.HasPrefix(tok, "input=") && e.Input == "":
				e.Input = strings.TrimPrefix(tok, "input=")
			case strings.HasPrefix(tok, "commit=") && e.Commit == "":
				e.Commit = strings.TrimPrefix(tok, "commit=")
			default:
				rest = append(rest, tok)
			}
		}
		e.Text = strings.Join(rest, " ")
		out = append(out, e)
	}
	return out
}

// ListedFindings returns the ids of the finding: entries of a property.
func ListedFindings(prop string) map[string]bool {
	m := map[string]bool{}
	for _, e := range Entries() {
		if !e.Fixed && e.Prop == prop {
			m[e.ID] = true
		}
	}
	return m
}
