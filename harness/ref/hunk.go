// Package ref holds the reference implementations (oracles). Nothing here
// imports jd: the semantics are written from the property statements, the
// README / doc/v2.md and the RFCs.
package ref

import (
	"fmt"
	"sort"
	"strings"

	"verifjd/val"
)

type V = val.V

type ElemKind int

const (
	Key ElemKind = iota
	Index
	SetElem      // {}
	MultisetElem // []
	SetKeys      // {"k":v,...}
	MultisetKeys // [{"k":v,...}]
)

type PathElem struct {
	Kind  ElemKind
	Key   string
	Index int
	Keys  map[string]V
}

// Hunk is one diff element. Void entries in Before/After stand for the
// array boundary; a Void entry in Add (merge hunks) stands for deletion.
type Hunk struct {
	Merge  bool
	Path   []PathElem
	Before []V
	Remove []V
	Add    []V
	After  []V
}

// PathJSON renders the path in jd's notation.
func PathJSON(p []PathElem) string {
	parts := make([]string, len(p))
	for i, e := range p {
		switch e.Kind {
		case Key:
			parts[i] = val.JSON(e.Key)
		case Index:
			parts[i] = fmt.Sprint(e.Index)
		case SetElem:
			parts[i] = "{}"
		case MultisetElem:
			parts[i] = "[]"
		case SetKeys:
			parts[i] = val.JSON(map[string]V(e.Keys))
		case MultisetKeys:
			parts[i] = "[" + val.JSON(map[string]V(e.Keys)) + "]"
		}
	}
	return "[" + strings.Join(parts, ",") + "]"
}

func (h Hunk) String() string {
	var b strings.Builder
	if h.Merge {
		b.WriteString("^merge ")
	}
	b.WriteString("@" + PathJSON(h.Path))
	w := func(tag string, vs []V) {
		for _, v := range vs {
			if val.IsVoid(v) {
				b.WriteString(" " + tag + "<void>")
			} else {
				b.WriteString(" " + tag + val.JSON(v))
			}
		}
	}
	w("b:", h.Before)
	w("-", h.Remove)
	w("+", h.Add)
	w("a:", h.After)
	return b.String()
}

// Reason classifies why a hunk does not apply.
type Reason string

const (
	RContext   Reason = "context"
	RRemove    Reason = "remove"
	RBounds    Reason = "bounds"
	RKind      Reason = "kind"
	RLeaf      Reason = "leaf"
	RMalformed Reason = "malformed"
	RMember    Reason = "member"
)

type ApplyError struct {
	Reason Reason
	Msg    string
	// InMember is set when the failure happened inside the object selected
	// by a keyed path element ({"k":v}).
	InMember bool
}

func (e *ApplyError) Error() string { return string(e.Reason) + ": " + e.Msg }

func fail(r Reason, f string, a ...interface{}) error {
	return &ApplyError{Reason: r, Msg: fmt.Sprintf(f, a...)}
}

// InMember reports whether an Apply error arose inside a keyed member.
func InMember(err error) bool {
	ae, ok := err.(*ApplyError)
	return ok && ae.InMember
}

// ReasonOf extracts the classification of an Apply error.
func ReasonOf(err error) Reason {
	if ae, ok := err.(*ApplyError); ok {
		return ae.Reason
	}
	return ""
}

// ApplyAll applies hunks in sequence to doc (never mutating doc).
func ApplyAll(doc V, hs []Hunk) (V, error) {
	cur := val.Clone(doc)
	for i, h := range hs {
		nxt, err := Apply(cur, h)
		if err != nil {
			return nil, fmt.Errorf("hunk %d: %w", i, err)
		}
		cur = nxt
	}
	return cur, nil
}

// Apply interprets one hunk on a copy of doc.
//
// Strict hunks: the path is walked (keys through objects, indices through
// arrays). A path that ends on a value is a leaf hunk: the value found
// there (Void for an absent key or the absent document) must equal the
// single removed value (Void when nothing is removed) and is replaced by
// the single added value (removed when nothing is added). A path that ends
// in an index is a list hunk with context. A path that ends in {} or []
// is a set / multiset hunk. A {"k":v} element selects the member object of
// a set whose fields k equal v; the rest of the path is applied strictly
// inside that member.
//
// Merge hunks: the path consists of keys only; intermediate objects are
// created (a non-object on the way is replaced by an object); the single
// added value is written, Void deletes.
func Apply(doc V, h Hunk) (V, error) {
	if h.Merge {
		return applyMerge(val.Clone(doc), h)
	}
	return applyStrict(val.Clone(doc), h.Path, h, val.List)
}

func applyMerge(cur V, h Hunk) (V, error) {
	if len(h.Remove) != 0 {
		return nil, fail(RMalformed, "merge hunk with removed value")
	}
	if len(h.Add) != 1 {
		return nil, fail(RMalformed, "merge hunk needs exactly one added value")
	}
	return mergeAt(cur, h.Path, h.Add[0])
}

func mergeAt(cur V, path []PathElem, nv V) (V, error) {
	if len(path) == 0 {
		if o, ok := nv.(map[string]V); ok && len(o) == 0 {
			// Merging an empty object into an object changes nothing
			// (RFC 7386: a patch {} has no members to apply).
			if _, isObj := cur.(map[string]V); isObj {
				return cur, nil
			}
		}
		return nv, nil
	}
	e := path[0]
	if e.Kind != Key {
		return nil, fail(RMalformed, "merge path must be keys")
	}
	o, ok := cur.(map[string]V)
	if !ok {
		o = map[string]V{}
	}
	child, present := o[e.Key]
	if !present {
		child = val.Void
	}
	nc, err := mergeAt(child, path[1:], nv)
	if err != nil {
		return nil, err
	}
	if val.IsVoid(nc) {
		delete(o, e.Key)
	} else {
		o[e.Key] = nc
	}
	return o, nil
}

// eq is equality under the reading in force at this point of the walk.
func eq(a, b V, r val.Reading) bool { return val.Equal(a, b, r) }

func applyStrict(cur V, path []PathElem, h Hunk, r val.Reading) (V, error) {
	if len(path) == 0 {
		return applyLeaf(cur, h, r)
	}
	e := path[0]
	rest := path[1:]
	switch e.Kind {
	case Key:
		o, ok := cur.(map[string]V)
		if !ok {
			return nil, fail(RKind, "key %q on %s", e.Key, val.Kind(cur))
		}
		child, present := o[e.Key]
		if !present {
			child = val.Void
		}
		nc, err := applyStrict(child, rest, h, val.List)
		if err != nil {
			return nil, err
		}
		if val.IsVoid(nc) {
			delete(o, e.Key)
		} else {
			o[e.Key] = nc
		}
		return o, nil
	case Index:
		l, ok := cur.([]V)
		if !ok {
			return nil, fail(RKind, "index %d on %s", e.Index, val.Kind(cur))
		}
		if len(rest) > 0 {
			if e.Index < 0 || e.Index >= len(l) {
				return nil, fail(RBounds, "index %d outside array of %d", e.Index, len(l))
			}
			nc, err := applyStrict(l[e.Index], rest, h, val.List)
			if err != nil {
				return nil, err
			}
			if val.IsVoid(nc) {
				return nil, fail(RMalformed, "void written into an array slot")
			}
			l[e.Index] = nc
			return l, nil
		}
		return applyListHunk(l, e.Index, h)
	case SetElem, MultisetElem:
		if len(rest) > 0 {
			return nil, fail(RMalformed, "{} or [] must end the path")
		}
		l, ok := cur.([]V)
		if !ok {
			return nil, fail(RKind, "set hunk on %s", val.Kind(cur))
		}
		if e.Kind == SetElem {
			return applySetHunk(l, h)
		}
		return applyBagHunk(l, h)
	case SetKeys:
		l, ok := cur.([]V)
		if !ok {
			return nil, fail(RKind, "keyed member on %s", val.Kind(cur))
		}
		if len(rest) == 0 {
			return nil, fail(RMalformed, "keyed member must be followed by a path")
		}
		found := -1
		for i, m := range l {
			o, ok := m.(map[string]V)
			if !ok {
				continue
			}
			match := true
			for k, want := range e.Keys {
				got, ok := o[k]
				if !ok || !eq(got, want, val.Set) {
					match = false
					break
				}
			}
			if match {
				if found >= 0 {
					return nil, fail(RMalformed, "several members match the keys")
				}
				found = i
			}
		}
		if found < 0 {
			return nil, fail(RMember, "no member with keys %s", val.JSON(map[string]V(e.Keys)))
		}
		nc, err := applyStrict(l[found], rest, h, val.List)
		if err != nil {
			if ae, ok := err.(*ApplyError); ok {
				ae.InMember = true
			}
			return nil, err
		}
		l[found] = nc
		return l, nil
	}
	return nil, fail(RMalformed, "unsupported path element")
}

func single(vs []V) (V, error) {
	switch len(vs) {
	case 0:
		return val.Void, nil
	case 1:
		return vs[0], nil
	}
	return nil, fail(RMalformed, "several values on a non-array hunk")
}

func applyLeaf(cur V, h Hunk, r val.Reading) (V, error) {
	old, err := single(h.Remove)
	if err != nil {
		return nil, err
	}
	nv, err := single(h.Add)
	if err != nil {
		return nil, err
	}
	if !eq(cur, old, r) {
		return nil, fail(RLeaf, "found %s, hunk expects %s", show(cur), show(old))
	}
	return nv, nil
}

func show(v V) string {
	if val.IsVoid(v) {
		return "<void>"
	}
	return val.JSON(v)
}

func applyListHunk(l []V, i int, h Hunk) (V, error) {
	if i < 0 || i > len(l) {
		return nil, fail(RBounds, "index %d outside array of %d", i, len(l))
	}
	// Removed values must be present at i, i+1, ...
	for j, rv := range h.Remove {
		if i+j >= len(l) {
			return nil, fail(RRemove, "removed value %s beyond the end", show(rv))
		}
		if !eq(l[i+j], rv, val.List) {
			return nil, fail(RRemove, "at %d found %s, hunk removes %s", i+j, show(l[i+j]), show(rv))
		}
	}
	// Context before: the last entry is adjacent to position i.
	for j, bv := range h.Before {
		pos := i - (len(h.Before) - j)
		switch {
		case val.IsVoid(bv):
			if pos != -1 {
				return nil, fail(RContext, "[ marker but position %d is not the start", pos)
			}
		case pos < 0:
			return nil, fail(RContext, "before context %s beyond the start", show(bv))
		case !eq(l[pos], bv, val.List):
			return nil, fail(RContext, "before: found %s want %s", show(l[pos]), show(bv))
		}
	}
	// Context after: the first entry follows the removed run.
	end := i + len(h.Remove)
	for j, av := range h.After {
		pos := end + j
		switch {
		case val.IsVoid(av):
			if pos != len(l) {
				return nil, fail(RContext, "] marker but position %d is not the end (%d)", pos, len(l))
			}
		case pos >= len(l):
			return nil, fail(RContext, "after context %s beyond the end", show(av))
		case !eq(l[pos], av, val.List):
			return nil, fail(RContext, "after: found %s want %s", show(l[pos]), show(av))
		}
	}
	for _, a := range h.Add {
		if val.IsVoid(a) {
			return nil, fail(RMalformed, "void added to an array")
		}
	}
	out := make([]V, 0, len(l)-len(h.Remove)+len(h.Add))
	out = append(out, l[:i]...)
	out = append(out, h.Add...)
	out = append(out, l[end:]...)
	return out, nil
}

func applySetHunk(l []V, h Hunk) (V, error) {
	members := map[string]V{}
	for _, m := range l {
		members[val.Canon(m, val.Set)] = m
	}
	for _, rv := range h.Remove {
		c := val.Canon(rv, val.Set)
		if _, ok := members[c]; !ok {
			return nil, fail(RRemove, "set has no member %s", show(rv))
		}
		delete(members, c)
	}
	for _, a := range h.Add {
		if val.IsVoid(a) {
			return nil, fail(RMalformed, "void added to a set")
		}
		members[val.Canon(a, val.Set)] = a
	}
	keys := make([]string, 0, len(members))
	for k := range members {
		keys = append(keys, k)
	}
	sort.Strings(keys)
	out := make([]V, 0, len(keys))
	for _, k := range keys {
		out = append(out, members[k])
	}
	return out, nil
}

func applyBagHunk(l []V, h Hunk) (V, error) {
	counts := map[string]int{}
	rep := map[string]V{}
	for _, m := range l {
		c := val.Canon(m, val.Multiset)
		counts[c]++
		rep[c] = m
	}
	for _, rv := range h.Remove {
		c := val.Canon(rv, val.Multiset)
		counts[c]--
		if counts[c] < 0 {
			return nil, fail(RRemove, "bag has too few of %s", show(rv))
		}
	}
	for _, a := range h.Add {
		if val.IsVoid(a) {
			return nil, fail(RMalformed, "void added to a bag")
		}
		c := val.Canon(a, val.Multiset)
		counts[c]++
		rep[c] = a
	}
	keys := make([]string, 0, len(counts))
	for k := range counts {
		keys = append(keys, k)
	}
	sort.Strings(keys)
	out := []V{}
	for _, k := range keys {
		for n := 0; n < counts[k]; n++ {
			out = append(out, rep[k])
		}
	}
	return out, nil
}

// LCSLen is the length of a longest common subsequence of two string
// sequences (plain O(nm) dynamic programme).
func LCSLen(a, b []string) int {
	prev := make([]int, len(b)+1)
	cur := make([]int, len(b)+1)
	for i := 1; i <= len(a); i++ {
		for j := 1; j <= len(b); j++ {
			if a[i-1] == b[j-1] {
				cur[j] = prev[j-1] + 1
			} else if prev[j] >= cur[j-1] {
				cur[j] = prev[j]
			} else {
				cur[j] = cur[j-1]
			}
		}
		prev, cur = cur, prev
		for j := range cur {
			cur[j] = 0
		}
	}
	return prev[len(b)]
}
