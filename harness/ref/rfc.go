package ref

import (
	"fmt"
	"strings"

	"verifjd/val"
)

// ---------------------------------------------------------------- RFC 6901

// ParsePointer splits a JSON Pointer into unescaped reference tokens.
func ParsePointer(p string) ([]string, error) {
	if p == "" {
		return nil, nil
	}
	if p[0] != '/' {
		return nil, fmt.Errorf("pointer %q does not start with /", p)
	}
	parts := strings.Split(p[1:], "/")
	for i, s := range parts {
		// ~ must be followed by 0 or 1.
		for j := 0; j < len(s); j++ {
			if s[j] == '~' && (j+1 >= len(s) || (s[j+1] != '0' && s[j+1] != '1')) {
				return nil, fmt.Errorf("bad escape in pointer %q", p)
			}
		}
		s = strings.ReplaceAll(s, "~1", "/")
		s = strings.ReplaceAll(s, "~0", "~")
		parts[i] = s
	}
	return parts, nil
}

// arrayIndex parses an RFC 6901 array index: 0 or digits without leading
// zero. allowEnd admits "-" (returned as n).
func arrayIndex(tok string, n int, allowEnd bool) (int, error) {
	if tok == "-" {
		if allowEnd {
			return n, nil
		}
		return 0, fmt.Errorf("index - not allowed here")
	}
	if tok == "" {
		return 0, fmt.Errorf("empty array index")
	}
	if tok != "0" && tok[0] == '0' {
		return 0, fmt.Errorf("leading zero in array index %q", tok)
	}
	x := 0
	for _, c := range tok {
		if c < '0' || c > '9' {
			return 0, fmt.Errorf("array index %q is not a number", tok)
		}
		x = x*10 + int(c-'0')
		if x > 1<<30 {
			return 0, fmt.Errorf("array index %q too large", tok)
		}
	}
	return x, nil
}

func ptrGet(doc V, toks []string) (V, error) {
	cur := doc
	for _, t := range toks {
		switch c := cur.(type) {
		case map[string]V:
			nxt, ok := c[t]
			if !ok {
				return nil, fmt.Errorf("no member %q", t)
			}
			cur = nxt
		case []V:
			i, err := arrayIndex(t, len(c), false)
			if err != nil {
				return nil, err
			}
			if i >= len(c) {
				return nil, fmt.Errorf("index %d out of range", i)
			}
			cur = c[i]
		default:
			return nil, fmt.Errorf("cannot descend into %s with %q", val.Kind(cur), t)
		}
	}
	return cur, nil
}

// ptrEdit rebuilds doc with the value at toks changed by f, where f
// receives the parent container and the last token and returns the new
// parent.
func ptrEdit(doc V, toks []string, f func(parent V, tok string) (V, error)) (V, error) {
	if len(toks) == 1 {
		return f(doc, toks[0])
	}
	switch c := doc.(type) {
	case map[string]V:
		child, ok := c[toks[0]]
		if !ok {
			return nil, fmt.Errorf("no member %q", toks[0])
		}
		nc, err := ptrEdit(child, toks[1:], f)
		if err != nil {
			return nil, err
		}
		out := make(map[string]V, len(c))
		for k, v := range c {
			out[k] = v
		}
		out[toks[0]] = nc
		return out, nil
	case []V:
		i, err := arrayIndex(toks[0], len(c), false)
		if err != nil {
			return nil, err
		}
		if i >= len(c) {
			return nil, fmt.Errorf("index %d out of range", i)
		}
		nc, err := ptrEdit(c[i], toks[1:], f)
		if err != nil {
			return nil, err
		}
		out := append([]V{}, c...)
		out[i] = nc
		return out, nil
	}
	return nil, fmt.Errorf("cannot descend into %s with %q", val.Kind(doc), toks[0])
}

// ---------------------------------------------------------------- RFC 6902

// Patch6902 evaluates a JSON Patch document (as a parsed V) on doc.
// All six operations are implemented from the RFC text. The document is
// not modified; an error means the patch does not apply (RFC 6902 §5:
// the whole patch fails).
func Patch6902(doc V, patch V) (V, error) {
	ops, ok := patch.([]V)
	if !ok {
		return nil, fmt.Errorf("patch is not an array")
	}
	cur := val.Clone(doc)
	for n, opv := range ops {
		op, ok := opv.(map[string]V)
		if !ok {
			return nil, fmt.Errorf("op %d is not an object", n)
		}
		name, ok := op["op"].(string)
		if !ok {
			return nil, fmt.Errorf("op %d has no op name", n)
		}
		ps, ok := op["path"].(string)
		if !ok {
			return nil, fmt.Errorf("op %d has no path", n)
		}
		toks, err := ParsePointer(ps)
		if err != nil {
			return nil, fmt.Errorf("op %d: %v", n, err)
		}
		value, hasValue := op["value"]
		var from []string
		if name == "move" || name == "copy" {
			fs, ok := op["from"].(string)
			if !ok {
				return nil, fmt.Errorf("op %d has no from", n)
			}
			from, err = ParsePointer(fs)
			if err != nil {
				return nil, fmt.Errorf("op %d: %v", n, err)
			}
		}
		switch name {
		case "add":
			if !hasValue {
				return nil, fmt.Errorf("op %d: add without value", n)
			}
			cur, err = opAdd(cur, toks, val.Clone(value))
		case "remove":
			cur, err = opRemove(cur, toks)
		case "replace":
			if !hasValue {
				return nil, fmt.Errorf("op %d: replace without value", n)
			}
			if _, gerr := ptrGet(cur, toks); gerr != nil {
				err = gerr
				break
			}
			if len(toks) == 0 {
				cur = val.Clone(value)
				break
			}
			cur, err = opRemove(cur, toks)
			if err == nil {
				cur, err = opAdd(cur, toks, val.Clone(value))
			}
		case "test":
			if !hasValue {
				return nil, fmt.Errorf("op %d: test without value", n)
			}
			var got V
			got, err = ptrGet(cur, toks)
			if err == nil && !val.Equal(got, value, val.List) {
				err = fmt.Errorf("test failed at %q: found %s want %s", ps, val.JSON(got), val.JSON(value))
			}
		case "move":
			var got V
			got, err = ptrGet(cur, from)
			if err != nil {
				break
			}
			if len(from) <= len(toks) && len(from) < len(toks) {
				prefix := true
				for i := range from {
					if from[i] != toks[i] {
						prefix = false
					}
				}
				if prefix {
					err = fmt.Errorf("move into own child")
					break
				}
			}
			cur, err = opRemove(cur, from)
			if err == nil {
				cur, err = opAdd(cur, toks, got)
			}
		case "copy":
			var got V
			got, err = ptrGet(cur, from)
			if err == nil {
				cur, err = opAdd(cur, toks, val.Clone(got))
			}
		default:
			err = fmt.Errorf("unknown op %q", name)
		}
		if err != nil {
			return nil, fmt.Errorf("op %d (%s %s): %v", n, name, ps, err)
		}
	}
	return cur, nil
}

func opAdd(doc V, toks []string, value V) (V, error) {
	if len(toks) == 0 {
		return value, nil
	}
	return ptrEdit(doc, toks, func(parent V, tok string) (V, error) {
		switch c := parent.(type) {
		case map[string]V:
			out := make(map[string]V, len(c)+1)
			for k, v := range c {
				out[k] = v
			}
			out[tok] = value
			return out, nil
		case []V:
			i, err := arrayIndex(tok, len(c), true)
			if err != nil {
				return nil, err
			}
			if i > len(c) {
				return nil, fmt.Errorf("add index %d out of range", i)
			}
			out := make([]V, 0, len(c)+1)
			out = append(out, c[:i]...)
			out = append(out, value)
			out = append(out, c[i:]...)
			return out, nil
		}
		return nil, fmt.Errorf("add into %s", val.Kind(parent))
	})
}

func opRemove(doc V, toks []string) (V, error) {
	if len(toks) == 0 {
		// Removing the whole document leaves no document.
		return val.Void, nil
	}
	return ptrEdit(doc, toks, func(parent V, tok string) (V, error) {
		switch c := parent.(type) {
		case map[string]V:
			if _, ok := c[tok]; !ok {
				return nil, fmt.Errorf("no member %q", tok)
			}
			out := make(map[string]V, len(c))
			for k, v := range c {
				if k != tok {
					out[k] = v
				}
			}
			return out, nil
		case []V:
			i, err := arrayIndex(tok, len(c), false)
			if err != nil {
				return nil, err
			}
			if i >= len(c) {
				return nil, fmt.Errorf("remove index %d out of range", i)
			}
			out := make([]V, 0, len(c)-1)
			out = append(out, c[:i]...)
			out = append(out, c[i+1:]...)
			return out, nil
		}
		return nil, fmt.Errorf("remove from %s", val.Kind(parent))
	})
}

// ---------------------------------------------------------------- RFC 7386

// MergePatch is the pseudocode of RFC 7386 §2.
//
//	define MergePatch(Target, Patch):
//	  if Patch is an Object:
//	    if Target is not an Object:
//	      Target = {} # Ignore the contents and set it to an empty Object
//	    for each Name/Value pair in Patch:
//	      if Value is null:
//	        if Name exists in Target:
//	          remove the Name/Value pair from Target
//	      else:
//	        Target[Name] = MergePatch(Target[Name], Value)
//	    return Target
//	  else:
//	    return Patch
func MergePatch(target, patch V) V {
	p, ok := patch.(map[string]V)
	if !ok {
		return val.Clone(patch)
	}
	t, ok := target.(map[string]V)
	out := map[string]V{}
	if ok {
		for k, v := range t {
			out[k] = val.Clone(v)
		}
	}
	for name, value := range p {
		if value == nil {
			delete(out, name)
		} else {
			cur, present := out[name]
			if !present {
				cur = val.Void // "undefined": any non-object works the same
			}
			out[name] = MergePatch(cur, value)
		}
	}
	return out
}
