package ref

import (
	"fmt"
	"math"
	"strconv"
	"strings"

	"verifjd/val"
)

// YAMLEmit is a minimal block-style YAML writer, independent of yaml.v2's
// emitter: every string and every key is double-quoted (with \u escapes for
// everything outside printable ASCII), so nothing depends on YAML's plain
// scalar resolution. Void renders as the empty text.
func YAMLEmit(v V) string {
	if val.IsVoid(v) {
		return ""
	}
	var b strings.Builder
	yamlNode(&b, v, 0, true)
	return b.String()
}

func yamlString(s string) string {
	var b strings.Builder
	b.WriteByte('"')
	for _, r := range s {
		switch {
		case r == '"':
			b.WriteString(`\"`)
		case r == '\\':
			b.WriteString(`\\`)
		case r >= 0x20 && r < 0x7f:
			b.WriteRune(r)
		case r <= 0xffff:
			fmt.Fprintf(&b, `\u%04X`, r)
		default:
			fmt.Fprintf(&b, `\U%08X`, r)
		}
	}
	b.WriteByte('"')
	return b.String()
}

func yamlNumber(f float64) string {
	if f == math.Trunc(f) && math.Abs(f) < 1<<53 {
		if f == 0 && math.Signbit(f) {
			return "-0.0"
		}
		return strconv.FormatFloat(f, 'f', 0, 64)
	}
	s := strconv.FormatFloat(f, 'g', -1, 64)
	if !strings.ContainsAny(s, ".eE") {
		s += ".0"
	}
	// yaml 1.1 floats need a digit before the exponent's sign handling: 1e+21 is fine.
	return s
}

func yamlScalar(v V) (string, bool) {
	switch t := v.(type) {
	case nil:
		return "null", true
	case bool:
		if t {
			return "true", true
		}
		return "false", true
	case float64:
		return yamlNumber(t), true
	case string:
		return yamlString(t), true
	case []V:
		if len(t) == 0 {
			return "[]", true
		}
	case map[string]V:
		if len(t) == 0 {
			return "{}", true
		}
	}
	return "", false
}

func yamlNode(b *strings.Builder, v V, indent int, root bool) {
	if s, ok := yamlScalar(v); ok {
		b.WriteString(s)
		b.WriteByte('\n')
		return
	}
	pad := strings.Repeat("  ", indent)
	switch t := v.(type) {
	case []V:
		for _, e := range t {
			b.WriteString(pad)
			if s, ok := yamlScalar(e); ok {
				b.WriteString("- " + s + "\n")
				continue
			}
			b.WriteString("-\n")
			yamlNode(b, e, indent+1, false)
		}
	case map[string]V:
		for _, k := range val.Keys(t) {
			b.WriteString(pad)
			b.WriteString(yamlString(k))
			if s, ok := yamlScalar(t[k]); ok {
				b.WriteString(": " + s + "\n")
				continue
			}
			b.WriteString(":\n")
			yamlNode(b, t[k], indent+1, false)
		}
	}
}
