// Package gen holds the rapid generators. Every random choice is a rapid
// draw so that shrinking and replay work.
package gen

import (
	"os"
	"fmt"
	"math"
	"sort"
	"strings"

	"pgregory.net/rapid"

	"verifjd/val"
)

type V = val.V

// Profile steers the document generator.
type Profile struct {
	MaxDepth  int      // containers nested at most this deep (default 3)
	MaxArr    int      // maximal array length (default 5)
	MaxObj    int      // maximal number of object keys (default 4)
	NullFree  bool     // no nulls anywhere (merge profiles)
	NastyKeys bool     // keys from the nasty pool as well
	Payload   bool     // strings from the payload pool as well
	Floats    bool     // non-integral / extreme numbers as well
	Keyed     []string // objects inside arrays carry these keys, unique tuples per array
	VoidRoot  bool     // the document may be void
	ArrayBias int      // 0..100: extra chance that a container is an array
	ScalarArr bool     // arrays hold scalars only
	Big       int      // 0..100: chance (per document) of one very long string or array somewhere
	// RespellAll: copies of a keyed member may spell every nested array in
	// another member order, not only the arrays inside key values.
	RespellAll bool
}

func (p Profile) norm() Profile {
	if p.MaxDepth == 0 {
		p.MaxDepth = 3
	}
	if p.MaxArr == 0 {
		p.MaxArr = 5
	}
	if p.MaxObj == 0 {
		p.MaxObj = 4
	}
	return p
}

var plainKeys = []string{"a", "b", "c", "id", "k", "ab", "bc"}

// caseKeys differ from plain keys only in letter case.
var caseKeys = []string{"A", "B", "ID", "Id", "K"}
var nastyKeys = []string{"a b", " a", "x y", "%41", "100%25", "a%2Fb", "q%20r", "\u0001k", "\u007f", "\U000e0001", "~1", "a~1b", "x~01", "~01", "1e2", "1.5", "2.0", "0e0", ".5", "0x10", "inf", "NaN", "1_0", "", "a/b", "m~n", "\u00e9", "1", "01", "-", "+1", "~0", "a b", "/", "~", "0", "-1", "12345678901234567890", "\"q\"", " "}
var plainStrings = []string{"", "a", "b", "1", "true"}

// PayloadStrings are strings that stress text formats.
var PayloadStrings = []string{
	"\x00", "\x1f", "\n", "\r\n", "\t", "\"", "\\", "\\\"", "<>&", "</script>", "\u2028", "\u2029",
	"\U0001F600", "\u00e9", "\u65e5\u672c", "\u007f", "\u0080", "\ufeff", " lead", "trail ", "- x", "a: b", "#c", "@", "[", "]", "^", "+", "-", " ",
	"null", "[]", "{}", "0", "1e21", "~", "yes", "\\u0026", "p\\u003eq", "\\u003c", "C:\\U0001F600", "100%", "%d items", "%s", "%!v(MISSING)", "%%", "a%b",
	"//", "a // b", "/* c */", "a /* b */ c", "http://h/p?q=1//", "C:\\dir\\", "*/", "/*",
	"[m]", "[10m]", "a[1;2m", "[31mFAILED[0m", "\x1b[31mred\x1b[0m", "[0m", "\x1b[",
}

// LongStrings share their first 60 bytes and differ only near the end.
var LongStrings = []string{
	"https://example.com/a/very/long/path/that/goes/on/and/on/and/on/0001",
	"https://example.com/a/very/long/path/that/goes/on/and/on/and/on/0002",
	"https://example.com/a/very/long/path/that/goes/on/and/on/and/on/0001?x",
	"https://example.com/a/very/long/path/that/goes/on/and/on/and/on/",
}

var floatPool = []float64{5e-324, 1e-310, 2.5e-320, -5e-324, 0.3, 1234567890123456, 1234567890123457, 9007199254740990, 9007199254740991, 1.0000000000000002, 0.5, -0.5, 1e21, 1e-7, math.Copysign(0, -1), 1.5, 2.25, 9007199254740993, 1e300, -1, 0.1, 0.30000000000000004, 100, 9223372036854775808, 1e19, 18446744073709549568}

// Scale is 1 in the quick tier and 4 in the thorough tier: the generators of
// long arrays, wide objects, long strings and deep nesting multiply their
// sizes by it, so that a behaviour that depends on a size is exercised on
// both sides of more possible limits.
func Scale() int {
	if unscaled {
		return 1
	}
	if os.Getenv("VERIF_TIER") == "thorough" {
		return 4
	}
	return 1
}

var unscaled bool

// Unscaled runs a generator with Scale() == 1 in every tier. Checks that
// evaluate each case many times over (C15 repeats every call twenty times
// and again from eight goroutines) draw their documents through it, so that
// the thorough tier stays bounded. A process runs one generator at a time.
func Unscaled(f func()) {
	old := unscaled
	unscaled = true
	defer func() { unscaled = old }()
	f()
}

// Rare is Chance for cases whose cost grows with the square of Scale (two
// long arrays through the LCS): in the thorough tier the sizes are larger and
// the share of such cases is cut so that the total work stays bounded.
func Rare(t *rapid.T, label string, pct int) bool {
	if !Chance(t, label, pct) {
		return false
	}
	return Scale() == 1 || Chance(t, label+"Thorough", 8)
}

// Int draws an integer uniformly from [lo, hi]. rapid's own integer
// generators favour small magnitudes, which would skew every weighted
// choice below; fair bits (rapid.Bool) are combined instead.
func Int(t *rapid.T, label string, lo, hi int) int {
	if hi <= lo {
		return lo
	}
	n := uint64(hi - lo + 1)
	bits := 2
	for (uint64(1) << uint(bits)) < 8*n {
		bits++
	}
	var v uint64
	bg := rapid.Bool()
	for i := 0; i < bits; i++ {
		v <<= 1
		if bg.Draw(t, label) {
			v |= 1
		}
	}
	return lo + int((v*n)>>uint(bits))
}

// Pick draws an element uniformly.
func Pick[T any](t *rapid.T, label string, xs []T) T { return xs[Int(t, label, 0, len(xs)-1)] }

func pick[T any](t *rapid.T, label string, xs []T) T { return Pick(t, label, xs) }

// Chance is true with probability pct/100.
func Chance(t *rapid.T, label string, pct int) bool { return Int(t, label, 0, 99) < pct }

func chance(t *rapid.T, label string, pct int) bool { return Chance(t, label, pct) }

// Scalar draws a scalar value.
func Scalar(t *rapid.T, p Profile) V {
	r := Int(t, "scalarKind", 0, 99)
	switch {
	case r < 45:
		return float64(Int(t, "int", 0, 3))
	case r < 68:
		return pick(t, "str", plainStrings)
	case r < 76:
		return rapid.Bool().Draw(t, "bool")
	case r < 84:
		if p.NullFree {
			return float64(Int(t, "int", 0, 3))
		}
		return nil
	case r < 92:
		if p.Floats {
			return pick(t, "float", floatPool)
		}
		return float64(Int(t, "int", 0, 3))
	default:
		if chance(t, "longString", 12) {
			return pick(t, "longStr", LongStrings)
		}
		if p.Payload {
			return pick(t, "payload", PayloadStrings)
		}
		return pick(t, "str", plainStrings)
	}
}

// NearScalar returns a value that differs from v as little as possible:
// the adjacent float64, or the same string with a changed tail.
func NearScalar(t *rapid.T, v V) (V, bool) {
	switch x := v.(type) {
	case float64:
		up := chance(t, "up", 50)
		y := math.Nextafter(x, math.Inf(-1))
		if up {
			y = math.Nextafter(x, math.Inf(1))
		}
		if math.IsInf(y, 0) || math.IsNaN(y) {
			y = math.Nextafter(x, 0)
		}
		return y, true
	case string:
		if len(x) == 0 {
			return nil, false
		}
		switch Int(t, "tail", 0, 2) {
		case 0:
			return x + "~", true
		case 1:
			return x[:len(x)-1], true
		default:
			return x[:len(x)-1] + "#", true
		}
	}
	return nil, false
}

func key(t *rapid.T, p Profile) string {
	if chance(t, "caseKey", 6) {
		return pick(t, "ckey", caseKeys)
	}
	if p.NastyKeys && chance(t, "nastyKey", 30) {
		return pick(t, "nkey", nastyKeys)
	}
	if p.Payload && chance(t, "payloadKey", 10) {
		return pick(t, "pkey", PayloadStrings)
	}
	return pick(t, "key", plainKeys)
}

// Value draws a value at the given nesting depth.
func Value(t *rapid.T, p Profile, depth int) V {
	p = p.norm()
	if depth >= p.MaxDepth {
		return Scalar(t, p)
	}
	r := Int(t, "kind", 0, 99)
	arrCut := 35 + p.ArrayBias*35/100
	switch {
	case r < arrCut:
		return Array(t, p, depth)
	case r < 70:
		return Object(t, p, depth)
	default:
		return Scalar(t, p)
	}
}

// Array draws an array with forced repeats.
func Array(t *rapid.T, p Profile, depth int) V {
	p = p.norm()
	n := Int(t, "arrLen", 0, p.MaxArr)
	out := make([]V, 0, n)
	for i := 0; i < n; i++ {
		if i > 0 && chance(t, "repeat", 25) {
			out = append(out, val.Clone(out[Int(t, "repeatOf", 0, i-1)]))
			continue
		}
		if p.ScalarArr {
			out = append(out, Scalar(t, p))
		} else {
			out = append(out, Value(t, p, depth+1))
		}
	}
	return out
}

// Object draws an object.
func Object(t *rapid.T, p Profile, depth int) V {
	p = p.norm()
	n := Int(t, "objLen", 0, p.MaxObj)
	out := map[string]V{}
	for i := 0; i < n; i++ {
		out[key(t, p)] = Value(t, p, depth+1)
	}
	return out
}

// Doc draws a whole document.
func Doc(t *rapid.T, p Profile) V {
	p = p.norm()
	if p.VoidRoot && chance(t, "voidRoot", 4) {
		return val.Void
	}
	var v V
	if chance(t, "rootContainer", 85) {
		if chance(t, "rootArray", 50+p.ArrayBias/2) {
			v = Array(t, p, 0)
		} else {
			v = Object(t, p, 0)
		}
	} else {
		v = Scalar(t, p)
	}
	if p.Big > 0 && chance(t, "big", p.Big) {
		v = injectBig(t, v)
	}
	if len(p.Keyed) > 0 {
		v = Keyify(v, p.Keyed)
	}
	return v
}

// BigValue draws a value whose one-line JSON rendering is long: a string of
// 5 KB or 70 KB, or an array of 80..3000 small numbers.
func BigValue(t *rapid.T) V {
	if Rare(t, "huge", 6) {
		if Chance(t, "hugeString", 50) {
			// longer than 1 MiB on one line
			return strings.Repeat("m", 1200000) + fmt.Sprint(Int(t, "bigTag", 0, 9))
		}
		// more than 2^20 LCS cells against a slightly edited copy; a run that can grow
		n := Int(t, "hugeLen", 1030, 1100*Scale())
		out := make([]V, n)
		for i := range out {
			out[i] = float64(i % 50)
			if i > 200 && i < 260 {
				out[i] = 0.0
			}
		}
		return out
	}
	switch Int(t, "bigKind", 0, 3) {
	case 0:
		return strings.Repeat("x", 5000) + fmt.Sprint(Int(t, "bigTag", 0, 9))
	case 1:
		return strings.Repeat("long line ", 7000) + fmt.Sprint(Int(t, "bigTag", 0, 9))
	case 2:
		n := Int(t, "bigLen", 65, 200*Scale())
		mod := Int(t, "bigMod", 3, 90)
		out := make([]V, n)
		for i := range out {
			out[i] = float64(i % mod)
		}
		return out
	case 3:
		n := Int(t, "bigLen", 80, 130)
		out := make([]V, n)
		for i := range out {
			out[i] = float64(i)
		}
		return out
	default:
		n := Int(t, "hugeLen", 1000, 3000)
		out := make([]V, n)
		for i := range out {
			out[i] = float64(i % 7)
		}
		return out
	}
}

func injectBig(t *rapid.T, v V) V {
	big := BigValue(t)
	switch x := v.(type) {
	case []V:
		i := Int(t, "bigAt", 0, len(x))
		out := append([]V{}, x[:i]...)
		out = append(out, big)
		return append(out, x[i:]...)
	case map[string]V:
		x[Pick(t, "bigKey", []string{"big", "a", "k"})] = big
		return x
	}
	return []V{v, big}
}

// Keyify repairs a document so that, in every array, every object member
// carries all keys and no two object members share a key tuple (the
// precondition of SetKeys). Repairs are deterministic functions of the
// structure.
func Keyify(v V, keys []string) V {
	switch x := v.(type) {
	case []V:
		seen := map[string]bool{}
		out := make([]V, len(x))
		for i, e := range x {
			e = Keyify(e, keys)
			if o, ok := e.(map[string]V); ok {
				for _, k := range keys {
					if _, ok := o[k]; !ok {
						o[k] = float64(i)
					}
				}
				tuple := func() string {
					s := ""
					for _, k := range keys {
						s += val.Canon(o[k], val.Set) + "|"
					}
					return s
				}
				for n := 0; seen[tuple()]; n++ {
					o[keys[0]] = fmt.Sprintf("u%d_%d", i, n)
				}
				seen[tuple()] = true
			}
			out[i] = e
		}
		return out
	case map[string]V:
		out := make(map[string]V, len(x))
		for k, e := range x {
			out[k] = Keyify(e, keys)
		}
		return out
	}
	return v
}

// ---------------------------------------------------------------- edits

// Edit derives a document from a by a drawn sequence of edits at drawn
// positions.
func Edit(t *rapid.T, a V, p Profile) V { return EditN(t, a, p, 1, 4) }

// EditN applies between lo and hi edits.
func EditN(t *rapid.T, a V, p Profile, lo, hi int) V {
	p = p.norm()
	if val.IsVoid(a) {
		return Doc(t, p)
	}
	b := val.Clone(a)
	n := Int(t, "nEdits", lo, hi)
	for i := 0; i < n; i++ {
		b = editAt(t, b, p, 0)
	}
	if len(p.Keyed) > 0 {
		b = Keyify(b, p.Keyed)
	}
	return b
}

func editAt(t *rapid.T, v V, p Profile, depth int) V {
	switch x := v.(type) {
	case []V:
		if len(x) > 0 && chance(t, "descend", 45) {
			i := Int(t, "descendIdx", 0, len(x)-1)
			x[i] = editAt(t, x[i], p, depth+1)
			return x
		}
		return editArray(t, x, p, depth)
	case map[string]V:
		if len(x) > 0 && chance(t, "descend", 55) {
			ks := val.Keys(x)
			k := pick(t, "descendKey", ks)
			x[k] = editAt(t, x[k], p, depth+1)
			return x
		}
		return editObject(t, x, p, depth)
	default:
		// scalar: replace, sometimes by a container (type change)
		if f, ok := v.(float64); ok && f != 0 && chance(t, "negate", 8) {
			return -f
		}
		if chance(t, "near", 15) {
			if nv, ok := NearScalar(t, v); ok {
				return nv
			}
		}
		if chance(t, "typeChange", 25) {
			return Value(t, p, depth)
		}
		return Scalar(t, p)
	}
}

func newElem(t *rapid.T, p Profile, depth int) V {
	if p.ScalarArr {
		return Scalar(t, p)
	}
	return Value(t, p, depth+1)
}

func editArray(t *rapid.T, x []V, p Profile, depth int) V {
	op := Int(t, "arrOp", 0, 9)
	n := len(x)
	switch {
	case op == 0 || n == 0: // insert
		i := Int(t, "insAt", 0, n)
		e := newElem(t, p, depth)
		out := append([]V{}, x[:i]...)
		out = append(out, e)
		return append(out, x[i:]...)
	case op == 1: // delete
		i := Int(t, "delAt", 0, n-1)
		out := append([]V{}, x[:i]...)
		return append(out, x[i+1:]...)
	case op == 2: // replace
		i := Int(t, "replAt", 0, n-1)
		x[i] = newElem(t, p, depth)
		return x
	case op == 3: // duplicate
		i := Int(t, "dupAt", 0, n-1)
		j := Int(t, "dupTo", 0, n)
		e := val.Clone(x[i])
		out := append([]V{}, x[:j]...)
		out = append(out, e)
		return append(out, x[j:]...)
	case op == 4 && n >= 2: // adjacent swap
		i := Int(t, "swapAt", 0, n-2)
		x[i], x[i+1] = x[i+1], x[i]
		return x
	case op == 5 && n >= 2: // rotate / shuffle by drawn permutation
		perm := rapid.Permutation(x).Draw(t, "perm")
		return perm
	case op == 6: // delete a run
		i := Int(t, "runAt", 0, n-1)
		l := Int(t, "runLen", 1, n-i)
		out := append([]V{}, x[:i]...)
		return append(out, x[i+l:]...)
	case op == 7: // insert a run
		i := Int(t, "insRunAt", 0, n)
		l := Int(t, "insRunLen", 2, 3)
		out := append([]V{}, x[:i]...)
		for k := 0; k < l; k++ {
			out = append(out, newElem(t, p, depth))
		}
		return append(out, x[i:]...)
	case op == 8: // type change of the whole array
		if chance(t, "wrap", 50) {
			return map[string]V{"a": x}
		}
		return Scalar(t, p)
	default: // two separated edits
		i := Int(t, "e1", 0, n-1)
		x[i] = newElem(t, p, depth)
		j := Int(t, "e2", 0, n-1)
		x[j] = newElem(t, p, depth)
		return x
	}
}

func editObject(t *rapid.T, x map[string]V, p Profile, depth int) V {
	op := Int(t, "objOp", 0, 7)
	ks := val.Keys(x)
	switch {
	case op == 7 && len(ks) >= 2: // re-split two neighbouring key names: {"ab":x,"c":y} -> {"a":x,"bc":y}
		i := Int(t, "splitAt", 0, len(ks)-2)
		k1, k2 := ks[i], ks[i+1]
		var n1, n2 string
		if len(k1) >= 2 && Chance(t, "moveRight", 50) {
			n1, n2 = k1[:len(k1)-1], k1[len(k1)-1:]+k2
		} else if len(k2) >= 2 {
			n1, n2 = k1+k2[:1], k2[1:]
		} else {
			n1, n2 = k1, k2
		}
		if _, clash := x[n1]; (!clash || n1 == k1) && n1 != n2 {
			if _, clash2 := x[n2]; !clash2 || n2 == k2 {
				v1, v2 := x[k1], x[k2]
				delete(x, k1)
				delete(x, k2)
				x[n1], x[n2] = v1, v2
			}
		}
		return x
	case op == 6 && len(ks) >= 2: // exchange the values of two keys
		i := Int(t, "swapK1", 0, len(ks)-1)
		j := Int(t, "swapK2", 0, len(ks)-2)
		if j >= i {
			j++
		}
		x[ks[i]], x[ks[j]] = x[ks[j]], x[ks[i]]
		return x
	case op == 0 || len(ks) == 0: // add key
		x[key(t, p)] = Value(t, p, depth+1)
		return x
	case op == 1: // remove key
		delete(x, pick(t, "rmKey", ks))
		return x
	case op == 2: // rename key
		k := pick(t, "renKey", ks)
		v := x[k]
		delete(x, k)
		x[key(t, p)] = v
		return x
	case op == 3: // replace value
		x[pick(t, "replKey", ks)] = Value(t, p, depth+1)
		return x
	case op == 4: // type change of the whole object
		if chance(t, "unwrap", 50) && len(ks) > 0 {
			return x[ks[0]]
		}
		if chance(t, "toArr", 50) {
			return []V{x}
		}
		return Scalar(t, p)
	default: // change several keys
		for _, k := range ks {
			if chance(t, "multi", 50) {
				x[k] = Value(t, p, depth+1)
			}
		}
		return x
	}
}

// Pair draws (a, b): mostly b = Edit(a), sometimes independent, sometimes
// equal.
func Pair(t *rapid.T, p Profile) (V, V, string) {
	a := Doc(t, p)
	r := Int(t, "pairKind", 0, 99)
	switch {
	case r < 70:
		return a, Edit(t, a, p), "edit"
	case r < 93:
		return a, Doc(t, p), "independent"
	default:
		return a, val.Clone(a), "same"
	}
}

// Permute returns v with every array (at any depth) permuted by drawn
// permutations with the given chance.
func Permute(t *rapid.T, v V, pct int) V {
	switch x := v.(type) {
	case []V:
		out := make([]V, len(x))
		for i, e := range x {
			out[i] = Permute(t, e, pct)
		}
		if len(out) >= 2 && chance(t, "permuteThis", pct) {
			out = rapid.Permutation(out).Draw(t, "perm")
		}
		return out
	case map[string]V:
		out := make(map[string]V, len(x))
		for _, k := range val.Keys(x) {
			out[k] = Permute(t, x[k], pct)
		}
		return out
	}
	return v
}

// DupSome returns v with some array elements duplicated.
func DupSome(t *rapid.T, v V, pct int) V {
	switch x := v.(type) {
	case []V:
		out := make([]V, 0, len(x)+1)
		for _, e := range x {
			e2 := DupSome(t, e, pct)
			out = append(out, e2)
			if chance(t, "dupThis", pct) {
				out = append(out, val.Clone(e2))
			}
		}
		return out
	case map[string]V:
		out := make(map[string]V, len(x))
		for _, k := range val.Keys(x) {
			out[k] = DupSome(t, x[k], pct)
		}
		return out
	}
	return v
}

// ArrayPaths lists the locations of all arrays in v as key/index paths.
type Step struct {
	IsIndex bool
	Key     string
	Index   int
}

func ArrayPaths(v V) [][]Step {
	var out [][]Step
	var walk func(v V, path []Step)
	walk = func(v V, path []Step) {
		switch x := v.(type) {
		case []V:
			out = append(out, append([]Step{}, path...))
			for i, e := range x {
				walk(e, append(path, Step{IsIndex: true, Index: i}))
			}
		case map[string]V:
			for _, k := range val.Keys(x) {
				walk(x[k], append(path, Step{Key: k}))
			}
		}
	}
	walk(v, nil)
	sort.SliceStable(out, func(i, j int) bool { return len(out[i]) < len(out[j]) })
	return out
}

// At returns the value at path (ok=false if the path does not exist).
func At(v V, path []Step) (V, bool) {
	cur := v
	for _, s := range path {
		if s.IsIndex {
			l, ok := cur.([]V)
			if !ok || s.Index < 0 || s.Index >= len(l) {
				return nil, false
			}
			cur = l[s.Index]
		} else {
			o, ok := cur.(map[string]V)
			if !ok {
				return nil, false
			}
			c, ok := o[s.Key]
			if !ok {
				return nil, false
			}
			cur = c
		}
	}
	return cur, true
}

// SetAt returns a copy of v with the value at path replaced.
func SetAt(v V, path []Step, nv V) (V, bool) {
	if len(path) == 0 {
		return nv, true
	}
	s := path[0]
	if s.IsIndex {
		l, ok := v.([]V)
		if !ok || s.Index < 0 || s.Index >= len(l) {
			return nil, false
		}
		c, ok := SetAt(l[s.Index], path[1:], nv)
		if !ok {
			return nil, false
		}
		out := append([]V{}, l...)
		out[s.Index] = c
		return out, true
	}
	o, ok := v.(map[string]V)
	if !ok {
		return nil, false
	}
	child, ok := o[s.Key]
	if !ok {
		return nil, false
	}
	c, ok := SetAt(child, path[1:], nv)
	if !ok {
		return nil, false
	}
	out := make(map[string]V, len(o))
	for k, e := range o {
		out[k] = e
	}
	out[s.Key] = c
	return out, true
}

// ---------------------------------------------------------------- keyed sets

func keyValue(t *rapid.T, p Profile) V {
	r := Int(t, "keyValKind", 0, 99)
	switch {
	case r < 60:
		return float64(Int(t, "kvInt", 0, 5))
	case r < 85:
		return Pick(t, "kvStr", []string{"x", "y", "", "1"})
	case r < 90:
		return Chance(t, "kvBool", 50)
	case r < 93:
		if !p.NullFree {
			return nil // an explicit null is a key value like any other
		}
		return "n"
	case r < 96:
		if Chance(t, "kvArr2", 50) {
			return []V{float64(Int(t, "kvArr", 0, 2)), Pick(t, "kvArrB", []V{"x", 3.0})}
		}
		return []V{float64(Int(t, "kvArr", 0, 2))}
	default:
		return map[string]V{"n": float64(Int(t, "kvObj", 0, 2))}
	}
}

func keyedMember(t *rapid.T, keys []string, p Profile, depth int) V {
	o := map[string]V{}
	for _, k := range keys {
		o[k] = keyValue(t, p)
	}
	n := Int(t, "extraFields", 0, 3)
	for i := 0; i < n; i++ {
		k := Pick(t, "extraKey", []string{"a", "b", "c", "v"})
		if depth < 2 && Chance(t, "nestedKeyed", 15) {
			o[k] = KeyedArray(t, keys, p, depth+1)
		} else {
			o[k] = Value(t, Profile{MaxDepth: 2, MaxArr: 3, NullFree: p.NullFree}, 1)
		}
	}
	return o
}

// KeyedArray draws an array of keyed objects (plus a few stray members).
func KeyedArray(t *rapid.T, keys []string, p Profile, depth int) V {
	n := Int(t, "keyedLen", 0, 5)
	out := make([]V, 0, n)
	for i := 0; i < n; i++ {
		if Chance(t, "stray", 12) {
			out = append(out, Scalar(t, p))
			continue
		}
		out = append(out, keyedMember(t, keys, p, depth))
	}
	return Keyify(out, keys)
}

// KeyedPair draws two keyed-set documents in which many members keep their
// key tuple while other fields change.
func KeyedPair(t *rapid.T, keys []string, p Profile) (V, V) {
	a := KeyedArray(t, keys, p, 0).([]V)
	b := val.Clone(a).([]V)
	n := Int(t, "keyedEdits", 1, 4)
	for i := 0; i < n; i++ {
		op := Int(t, "keyedOp", 0, 9)
		switch {
		case op < 5 && len(b) > 0: // change a non-key field of a member
			j := Int(t, "member", 0, len(b)-1)
			if o, ok := b[j].(map[string]V); ok {
				k := Pick(t, "field", []string{"a", "b", "c", "v"})
				r := Int(t, "fieldOp", 0, 3)
				switch {
				case r == 0:
					delete(o, k)
				case r == 1:
					if _, present := o[k]; present {
						o[k] = editAt(t, o[k], Profile{MaxDepth: 2, MaxArr: 3, NullFree: p.NullFree, Keyed: keys}.norm(), 1)
					} else {
						o[k] = Scalar(t, p)
					}
				default:
					o[k] = Value(t, Profile{MaxDepth: 2, MaxArr: 3, NullFree: p.NullFree}, 1)
				}
			}
		case op == 5 && len(b) > 0: // remove a member
			j := Int(t, "member", 0, len(b)-1)
			b = append(append([]V{}, b[:j]...), b[j+1:]...)
		case op == 6: // add a member
			j := Int(t, "at", 0, len(b))
			b = append(append(append([]V{}, b[:j]...), keyedMember(t, keys, p, 0)), b[j:]...)
		case op == 7 && len(b) > 0: // change a key value
			j := Int(t, "member", 0, len(b)-1)
			if o, ok := b[j].(map[string]V); ok {
				o[Pick(t, "whichKey", keys)] = keyValue(t, p)
			}
		case op == 8 && len(b) >= 2: // reorder
			b = rapid.Permutation(b).Draw(t, "perm")
		default: // stray scalar
			b = append(b, Scalar(t, p))
		}
	}
	var av, bv V = a, Keyify(b, keys)
	av = Keyify(av, keys)
	switch Int(t, "keyedWrap", 0, 3) {
	case 1:
		av, bv = map[string]V{"items": av}, map[string]V{"items": bv}
	case 2:
		av, bv = map[string]V{"x": map[string]V{"items": av}, "n": 1.0}, map[string]V{"x": map[string]V{"items": bv}, "n": 1.0}
	}
	return av, bv
}

// ---------------------------------------------------------------- deep nesting

// DeepPair wraps a and b in the same chain of 1..6 objects; every level
// gets 0..3 sibling keys that are equal, changed, removed or added between
// the two sides. Paths of hunks then have up to 6 more leading keys, with
// several hunks sharing a prefix at depth.
func DeepPair(t *rapid.T, a, b V, p Profile) (V, V) {
	if val.IsVoid(a) || val.IsVoid(b) {
		return a, b
	}
	k := Int(t, "deepLevels", 1, 6)
	if Chance(t, "veryDeep", 6) {
		k = Int(t, "veryDeepLevels", 28, 45*Scale())
	}
	for i := 0; i < k; i++ {
		key := Pick(t, "deepKey", plainKeys)
		oa := map[string]V{key: a}
		ob := map[string]V{key: b}
		nsib := Int(t, "nSiblings", 0, 3)
		for j := 0; j < nsib; j++ {
			sk := fmt.Sprintf("s%d", j)
			va := Scalar(t, p)
			switch Int(t, "siblingMode", 0, 4) {
			case 0:
				oa[sk], ob[sk] = va, val.Clone(va)
			case 1, 2:
				oa[sk] = va
				nv := Scalar(t, p)
				ob[sk] = nv
			case 3:
				oa[sk] = va
			default:
				ob[sk] = va
			}
		}
		a, b = oa, ob
	}
	return a, b
}

// SwapValues exchanges the values of two keys in some of the objects of v.
func SwapValues(t *rapid.T, v V, pct int) V {
	switch x := v.(type) {
	case []V:
		out := make([]V, len(x))
		for i, e := range x {
			out[i] = SwapValues(t, e, pct)
		}
		return out
	case map[string]V:
		out := map[string]V{}
		ks := val.Keys(x)
		for _, k := range ks {
			out[k] = SwapValues(t, x[k], pct)
		}
		if len(ks) >= 2 && Chance(t, "swapHere", pct) {
			i := Int(t, "swapK1", 0, len(ks)-1)
			j := Int(t, "swapK2", 0, len(ks)-2)
			if j >= i {
				j++
			}
			out[ks[i]], out[ks[j]] = out[ks[j]], out[ks[i]]
		}
		return out
	}
	return v
}

// PathTwins plants, in object documents a and b, a nested member k1 -> k2 and
// a sibling member whose single key spells k1<sep>k2, and makes both change
// between a and b: two paths that read alike when flattened to text.
func PathTwins(t *rapid.T, a, b V, p Profile) (V, V) {
	ao, ok1 := a.(map[string]V)
	bo, ok2 := b.(map[string]V)
	if !ok1 || !ok2 {
		return a, b
	}
	k1 := Pick(t, "twinK1", []string{"a", "x", "", "k", "0", "a b"})
	k2 := Pick(t, "twinK2", []string{"b", "y z", "", "1", "a"})
	sep := Pick(t, "twinSep", []string{" ", " ", "/", "~1", ".", ",", "\",\"", "\" \"", ""})
	flat := k1 + sep + k2
	if flat == k1 {
		return a, b
	}
	change := func(name string) (V, V) {
		switch Int(t, name, 0, 3) {
		case 0:
			return val.Void, Scalar(t, p) // added
		case 1:
			return Scalar(t, p), val.Void // removed
		default:
			x := Scalar(t, p)
			y, ok := NearScalar(t, x)
			if !ok {
				y = 7.0
			}
			return x, y
		}
	}
	n1, n2 := change("twinNested")
	f1, f2 := change("twinFlat")
	if Chance(t, "twinLists", 35) {
		// both places hold lists that change in the middle (hunks with context)
		mid := func(name string) (V, V) {
			x := Scalar(t, p)
			return []V{1.0, x, 3.0}, []V{1.0, Pick(t, name, []V{9.0, "n", true}), 3.0}
		}
		n1, n2 = mid("twinNestedList")
		f1, f2 = mid("twinFlatList")
		if Chance(t, "twinAppend", 30) {
			n2 = append(n1.([]V)[:3:3], 4.0)
			f2 = append(f1.([]V)[:3:3], 5.0)
		}
	}
	put := func(o map[string]V, nested, flatV V) {
		inner := map[string]V{}
		if Chance(t, "twinFiller", 40) {
			inner["z"] = 1.0
		}
		if _, void := nested.(val.VoidT); !void {
			inner[k2] = nested
		}
		o[k1] = inner
		delete(o, flat)
		if _, void := flatV.(val.VoidT); !void {
			o[flat] = flatV
		}
	}
	put(ao, n1, f1)
	put(bo, n2, f2)
	return ao, bo
}

// SpellingTwins draws two documents in which one array holds several
// spellings of the same nested container (the same members in another order,
// or with a repeated member), as array members or inside member objects; b
// keeps fewer of them, none, or other ones.
func SpellingTwins(t *rapid.T) (V, V) {
	base := []V{float64(Int(t, "st0", 0, 2)), Pick(t, "st1", []V{"x", 3.0, true}), float64(Int(t, "st2", 4, 5))}
	base = base[:Int(t, "stLen", 2, 3)]
	spell := func(i int) V {
		var l []V
		switch i % 4 {
		case 0:
			l = append([]V{}, base...)
		case 1:
			l = make([]V, len(base))
			for k := range base {
				l[len(base)-1-k] = base[k]
			}
		case 2:
			l = append(append([]V{}, base[1:]...), base[0])
		default:
			l = append(append([]V{}, base...), base[0]) // a repeated member
		}
		return l
	}
	form := Int(t, "stForm", 0, 2)
	member := func(i int) V {
		switch form {
		case 1:
			return map[string]V{"k": spell(i)}
		case 2:
			return map[string]V{"k": []V{spell(i), 1.0}, "z": "z"}
		}
		return spell(i)
	}
	n := Int(t, "stCopies", 2, 4)
	var a []V
	for i := 0; i < n; i++ {
		a = append(a, member(Int(t, "stSpelling", 0, 3)))
	}
	if Chance(t, "stOther", 60) {
		at := Int(t, "stOtherAt", 0, len(a))
		a = append(a[:at:at], append([]V{Pick(t, "stOtherV", []V{3.0, "o", map[string]V{"k": []V{9.0}}})}, a[at:]...)...)
	}
	var b []V
	switch Int(t, "stB", 0, 4) {
	case 0: // all spellings go
		for _, e := range a {
			if !isSpellingMember(e, base) {
				b = append(b, val.Clone(e))
			}
		}
	case 1: // one spelling stays, in yet another order
		b = []V{member(Int(t, "stKeep", 0, 3))}
	case 2: // the same members, each spelled differently
		for i := range a {
			if isSpellingMember(a[i], base) {
				b = append(b, member(Int(t, "stRespell", 0, 3)))
			} else {
				b = append(b, val.Clone(a[i]))
			}
		}
	case 3: // drop the first element only
		b = val.Clone(V(a[1:])).([]V)
	default: // reversed
		for i := len(a) - 1; i >= 0; i-- {
			b = append(b, val.Clone(a[i]))
		}
	}
	if b == nil {
		b = []V{}
	}
	if Chance(t, "stUnderKey", 50) {
		return map[string]V{"s": a, "t": 1.0}, map[string]V{"s": b, "t": 1.0}
	}
	return a, b
}

func isSpellingMember(e V, base []V) bool {
	switch x := e.(type) {
	case []V:
		return len(x) >= len(base) && len(x) <= len(base)+1
	case map[string]V:
		_, ok := x["k"].([]V)
		_, other := x["k"].([]V)
		if ok && other {
			if l := x["k"].([]V); len(l) == 1 {
				return false // the "other" member {"k":[9]}
			}
		}
		return ok
	}
	return false
}

// RepeatedBlocks draws two objects in which two or three sibling keys hold the
// same container (four or more members), and b applies the same edit to every
// copy (or to all but one).
func RepeatedBlocks(t *rapid.T, p Profile) (V, V) {
	var block V
	if Chance(t, "blockIsArray", 40) {
		l := []V{}
		for i := Int(t, "blockLen", 4, 6); i > 0; i-- {
			l = append(l, Scalar(t, p))
		}
		block = l
	} else {
		o := map[string]V{}
		for i := 0; i < Int(t, "blockKeys", 4, 6); i++ {
			o[plainKeys[i%len(plainKeys)]+fmt.Sprint(i)] = Scalar(t, p)
		}
		if Chance(t, "blockNested", 50) {
			o["in"] = map[string]V{"q": 1.0, "r": []V{1.0, 2.0}}
		}
		block = o
	}
	edited := editAt(t, val.Clone(block), p.norm(), 1)
	names := []string{"b1", "b2", "b3", "a0"}[:Int(t, "blockCopies", 2, 4)]
	a, b := map[string]V{}, map[string]V{}
	for i, k := range names {
		a[k] = val.Clone(block)
		if i == len(names)-1 && Chance(t, "lastKept", 25) {
			b[k] = val.Clone(block)
		} else {
			b[k] = val.Clone(edited)
		}
	}
	if Chance(t, "blockSibling", 50) {
		a["zz"], b["zz"] = 1.0, 1.0
	}
	if Chance(t, "blocksNested", 30) {
		return map[string]V{"top": a}, map[string]V{"top": b}
	}
	return a, b
}

// BracketTwins draws two nested lists with the same scalars in the same
// order that differ only in where a nested list opens or closes.
func BracketTwins(t *rapid.T) (V, V) {
	x, y, z := Scalar(t, Profile{NullFree: true}), Pick(t, "btY", []V{2.0, "b", true}), Pick(t, "btZ", []V{3.0, "c"})
	pairs := [][2]V{
		{[]V{[]V{x, y}, z}, []V{[]V{x}, y, z}},
		{[]V{[]V{}, x}, []V{[]V{x}}},
		{[]V{[]V{x}, []V{y}}, []V{[]V{x, []V{y}}}},
		{[]V{[]V{x}, []V{y}, z}, []V{[]V{x}, []V{y, z}}},
		{[]V{x, []V{y, z}}, []V{x, []V{y}, z}},
		{[]V{[]V{[]V{x}, y}}, []V{[]V{[]V{x, y}}}},
		{[]V{[]V{x, y}}, []V{[]V{x}, []V{y}}},
		{[]V{[]V{}, []V{}}, []V{[]V{[]V{}}}},
	}
	pr := Pick(t, "btPair", pairs)
	a, b := val.Clone(pr[0]), val.Clone(pr[1])
	if Chance(t, "btSwap", 50) {
		a, b = b, a
	}
	return a, b
}

// RespellKeyValues returns v with the arrays inside the key values of keyed
// members written in another member order (the same value under the set
// reading that SetKeys implies).
func RespellKeyValues(t *rapid.T, v V, keys []string) V {
	switch x := v.(type) {
	case []V:
		out := make([]V, len(x))
		for i, e := range x {
			out[i] = RespellKeyValues(t, e, keys)
		}
		return out
	case map[string]V:
		// Only the key values of this member are respelled; what lies below
		// its other fields stays as it is (copies of a member that differ in
		// the spelling of a non-key field are the D41 input class, which only
		// the random leg of C01 generates and judges).
		hasKey := false
		for _, k := range keys {
			if _, ok := x[k]; ok {
				hasKey = true
			}
		}
		out := map[string]V{}
		for _, k := range val.Keys(x) {
			if hasKey {
				out[k] = x[k]
			} else {
				out[k] = RespellKeyValues(t, x[k], keys)
			}
		}
		for _, k := range keys {
			if kv, ok := out[k]; ok && Chance(t, "respellKey", 60) {
				out[k] = Permute(t, kv, 100)
			}
		}
		return out
	}
	return v
}
