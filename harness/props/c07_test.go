package props

import (
	"fmt"
	"math"
	"testing"

	jd "github.com/josephburnett/jd/v2"
	"pgregory.net/rapid"

	"verifjd/gen"
	"verifjd/jdx"
	"verifjd/rec"
	"verifjd/ref"
	"verifjd/val"
)

// C07 — a diff reports only real differences: no no-op, no redundant hunk.

var c07OptSets = []string{"list", "list", "prec:0", "set", "mset", "setkeys:id", "merge", "set+merge", "mset+merge", "set+mset", "mset+set"}

// locate walks a hunk path prefix (everything but a trailing index / {} /
// []) in doc. present=false means a key on the way is absent.
func locate(doc val.V, path []ref.PathElem) (v val.V, present bool, err error) {
	cur := doc
	for _, e := range path {
		switch e.Kind {
		case ref.Key:
			o, ok := cur.(map[string]val.V)
			if !ok {
				return nil, false, fmt.Errorf("key %q on %s", e.Key, val.Kind(cur))
			}
			c, ok := o[e.Key]
			if !ok {
				return val.Void, false, nil
			}
			cur = c
		case ref.Index:
			l, ok := cur.([]val.V)
			if !ok || e.Index < 0 || e.Index >= len(l) {
				return nil, false, fmt.Errorf("index %d not in %s", e.Index, val.Kind(cur))
			}
			cur = l[e.Index]
		case ref.SetKeys:
			l, ok := cur.([]val.V)
			if !ok {
				return nil, false, fmt.Errorf("keyed member on %s", val.Kind(cur))
			}
			found := false
			for _, m := range l {
				o, ok := m.(map[string]val.V)
				if !ok {
					continue
				}
				match := true
				for k, want := range e.Keys {
					got, ok := o[k]
					if !ok || !val.Equal(got, want, val.Set) {
						match = false
					}
				}
				if match {
					cur, found = m, true
					break
				}
			}
			if !found {
				return nil, false, fmt.Errorf("no member %s", val.JSON(map[string]val.V(e.Keys)))
			}
		default:
			return nil, false, fmt.Errorf("unexpected path element")
		}
	}
	return cur, true, nil
}

func canonList(vs []val.V, rd val.Reading) []string {
	out := make([]string, len(vs))
	for i, v := range vs {
		out[i] = val.Canon(v, rd)
	}
	return out
}

func checkC07(c PairCase, r *rec.Rec) error {
	av, err := val.Parse(c.A)
	if err != nil {
		return fmt.Errorf("bad case: %v", err)
	}
	bv, err := val.Parse(c.B)
	if err != nil {
		return fmt.Errorf("bad case: %v", err)
	}
	rd := jdx.Reading(c.Opts)
	opts := jdx.Options(c.Opts)
	d, pmsg, panicked := jdx.DiffSafe(jdx.NodeText(c.A), jdx.NodeText(c.B), opts)
	if panicked {
		return rec.Violated("Diff panicked: %s", pmsg)
	}
	hs, err := jdx.ToHunks(d)
	if err != nil {
		return rec.Violated("diff holds an unreadable node: %v", err)
	}
	text := d.Render()
	cur := val.Clone(av)
	for k, h := range hs {
		if len(h.Remove) == 0 && len(h.Add) == 0 {
			return rec.Violated("hunk %d neither removes nor adds anything: %s\ndiff:\n%s", k, h, text)
		}
		// what it removes is there (the reference interpreter checks the
		// addressed location of the running document)
		nxt, err := ref.Apply(cur, h)
		if err != nil {
			if ref.ReasonOf(err) == ref.RMalformed {
				r.Class("out-of-domain:" + err.Error())
				return nil
			}
			return rec.Violated("hunk %d does not describe the document it was made for (%v): %s\ndiff:\n%s", k, err, h, text)
		}
		// what it removes differs from what it adds
		if !h.Merge {
			last := ref.PathElem{Kind: ref.Key}
			if len(h.Path) > 0 {
				last = h.Path[len(h.Path)-1]
			}
			rc, ac := canonList(h.Remove, rd), canonList(h.Add, rd)
			switch last.Kind {
			case ref.SetElem, ref.MultisetElem:
				inAdd := map[string]bool{}
				for _, x := range ac {
					inAdd[x] = true
				}
				for i, x := range rc {
					if inAdd[x] {
						return rec.Violated("hunk %d removes and adds the same member %s: %s\ndiff:\n%s", k, val.JSON(h.Remove[i]), h, text)
					}
				}
			default:
				if fmt.Sprint(rc) == fmt.Sprint(ac) {
					return rec.Violated("hunk %d removes exactly what it adds: %s\ndiff:\n%s", k, h, text)
				}
				if last.Kind == ref.Index && rd == val.List {
					// the removed and the added run lie between two common
					// elements of an optimal alignment, so they have nothing
					// in common themselves: a value on both sides is an
					// unchanged element that the hunk restates
					if n := ref.LCSLen(rc, ac); n > 0 {
						return rec.Violated("hunk %d removes and re-adds %d unchanged element(s) (equal values, in order, on both sides): %s", k, n, truncateText(h.String(), 600))
					}
				}
			}
		} else {
			old, present, lerr := locate(cur, h.Path)
			if lerr == nil {
				nv := h.Add[0]
				if val.IsVoid(nv) && !present {
					return rec.Violated("merge hunk %d deletes a key that is not there: %s\ndiff:\n%s", k, h, text)
				}
				if present && !val.IsVoid(nv) && val.Equal(old, nv, rd) {
					return rec.Violated("merge hunk %d writes the value that is already there: %s\ndiff:\n%s", k, h, text)
				}
			}
		}
		// what it adds is in b at the addressed location
		if err := addedIsInB(bv, h, rd); err != nil {
			return rec.Violated("hunk %d: %v: %s\ndiff:\n%s", k, err, h, text)
		}
		cur = nxt
	}
	if !val.Equal(cur, bv, rd) {
		return rec.Violated("the hunks lead to %s, not to b = %s\ndiff:\n%s", val.JSON(cur), c.B, text)
	}
	// no hunk is redundant
	for k := range d {
		sub := make(jd.Diff, 0, len(d)-1)
		fresh := jdx.NodeText(c.A).Diff(jdx.NodeText(c.B), opts...)
		if len(fresh) != len(d) {
			return rec.Violated("Diff is not deterministic: %d then %d hunks", len(d), len(fresh))
		}
		sub = append(sub, fresh[:k]...)
		sub = append(sub, fresh[k+1:]...)
		out := jdx.Patch(jdx.NodeText(c.A), sub)
		if out.OK() && out.Node.Equals(jdx.NodeText(c.B), opts...) {
			return rec.Violated("hunk %d is redundant: without it the remaining hunks still turn a into b\nhunk: %s\ndiff:\n%s", k, hs[k], text)
		}
	}
	cls := append([]string{"opts=" + c.Opts}, diffClasses(av, hs)...)
	if len(d) >= 2 {
		cls = append(cls, "multi-hunk:"+c.Opts)
	}
	r.Case(c.A+"|"+c.B+"|"+c.Opts, len(d) >= 2, cls...)
	if len(d) >= 2 {
		r.Sample(c)
	}
	return nil
}

func truncateText(s string, n int) string {
	if len(s) > n {
		return s[:n] + "..."
	}
	return s
}

func addedIsInB(bv val.V, h ref.Hunk, rd val.Reading) error {
	if len(h.Path) == 0 {
		if h.Merge || len(h.Add) > 0 {
			want := val.V(val.Void)
			if len(h.Add) > 0 {
				want = h.Add[0]
			}
			if !val.Equal(bv, want, rd) {
				return fmt.Errorf("the added document %s is not b", val.JSON(want))
			}
		}
		return nil
	}
	last := h.Path[len(h.Path)-1]
	switch last.Kind {
	case ref.Index:
		at, present, err := locate(bv, h.Path[:len(h.Path)-1])
		if err != nil || !present {
			return fmt.Errorf("b has no array at the hunk's path (%v)", err)
		}
		l, ok := at.([]val.V)
		if !ok {
			return fmt.Errorf("b holds %s at the hunk's path", val.Kind(at))
		}
		for j, a := range h.Add {
			if last.Index+j >= len(l) || !val.Equal(l[last.Index+j], a, rd) {
				return fmt.Errorf("added value %s is not at index %d of b's array", val.JSON(a), last.Index+j)
			}
		}
	case ref.SetElem, ref.MultisetElem:
		at, present, err := locate(bv, h.Path[:len(h.Path)-1])
		if err != nil || !present {
			return fmt.Errorf("b has no array at the hunk's path (%v)", err)
		}
		l, ok := at.([]val.V)
		if !ok {
			return fmt.Errorf("b holds %s at the hunk's path", val.Kind(at))
		}
		count := map[string]int{}
		for _, m := range l {
			count[val.Canon(m, rd)]++
		}
		for _, a := range h.Add {
			c := val.Canon(a, rd)
			if count[c] == 0 {
				return fmt.Errorf("added member %s is not in b's array", val.JSON(a))
			}
			if last.Kind == ref.MultisetElem {
				count[c]--
			}
		}
	default:
		at, present, err := locate(bv, h.Path)
		if err != nil {
			return fmt.Errorf("b has nothing at the hunk's path (%v)", err)
		}
		want := val.V(val.Void)
		if len(h.Add) > 0 {
			want = h.Add[0]
		}
		if val.IsVoid(want) {
			if present {
				return fmt.Errorf("hunk deletes a value that b still has")
			}
			return nil
		}
		if !present || !val.Equal(at, want, rd) {
			return fmt.Errorf("added value %s is not what b holds there", val.JSON(want))
		}
	}
	return nil
}

func genC07(t *rapid.T) PairCase {
	opts := gen.Pick(t, "opts", c07OptSets)
	one := func() (val.V, val.V) {
		p := profileFor(opts)
		p.VoidRoot = false
		if ks := jdx.SetKeysOf(opts); ks != nil && gen.Chance(t, "keyedPair", 60) {
			return gen.KeyedPair(t, ks, p)
		}
		if gen.Chance(t, "arrays", 50) {
			p.ArrayBias = 60
			p.MaxArr = 8
		}
		p.Floats = gen.Chance(t, "floats", 30)
		a := gen.Doc(t, p)
		if p.Floats && gen.Chance(t, "zeroSign", 40) {
			// the same document with the sign of some zeros flipped: equal values, different text
			return a, flipZeros(t, a)
		}
		if gen.Chance(t, "independent", 12) {
			return a, gen.Doc(t, p)
		}
		return a, gen.EditN(t, a, p, 2, 6)
	}
	if opts == "list" && gen.Rare(t, "longDistant", 3) {
		// a long array with two edits far apart
		n := gen.Int(t, "n", 520, 700*gen.Scale())
		a := make([]val.V, n)
		for i := range a {
			a[i] = float64(i)
		}
		b := append([]val.V{}, a...)
		b[gen.Int(t, "e1", 2, 20)] = "x"
		b[n-gen.Int(t, "e2", 2, 20)] = "y"
		return PairCase{A: val.JSON(a), B: val.JSON(b), Opts: opts}
	}
	if gen.Chance(t, "composite", 45) {
		// several independently edited parts under one object: several hunks
		a, b := map[string]val.V{}, map[string]val.V{}
		for _, k := range []string{"p", "q", "r"}[:gen.Int(t, "parts", 2, 3)] {
			a[k], b[k] = one()
		}
		return PairCase{A: val.JSON(a), B: val.JSON(b), Opts: opts}
	}
	a, b := one()
	if jdx.IsMerge(opts) && gen.Chance(t, "nullsInA", 20) {
		// b stays null-free (a merge diff cannot say "set to null"); nulls
		// and empty objects in a are ordinary old values
		a = sprinkleNulls(t, a)
	}
	if gen.Chance(t, "deep", 25) {
		a, b = gen.DeepPair(t, a, b, profileFor(opts))
	}
	if gen.Chance(t, "voidSide", 4) {
		a = val.Void
	}
	return PairCase{A: val.JSON(a), B: val.JSON(b), Opts: opts}
}

func flipZeros(t *rapid.T, v val.V) val.V {
	switch x := v.(type) {
	case float64:
		if x == 0 && gen.Chance(t, "flip", 60) {
			if math.Signbit(x) {
				return 0.0
			}
			return math.Copysign(0, -1)
		}
		return x
	case []val.V:
		out := make([]val.V, len(x))
		for i, e := range x {
			out[i] = flipZeros(t, e)
		}
		return out
	case map[string]val.V:
		out := map[string]val.V{}
		for _, k := range val.Keys(x) {
			out[k] = flipZeros(t, x[k])
		}
		return out
	}
	return v
}

func init() { Register("C07", "random", checkC07); Register("C07", "exhaustive", checkC07) }

func TestC07Random(t *testing.T) { RunRandom(t, "C07", "random", genC07, checkC07) }

// Every multi-hunk diff of small scalar array pairs, in list mode.
func TestC07Exhaustive(t *testing.T) {
	alpha, maxLen := 3, 4
	if thorough() {
		alpha, maxLen = 3, 5
	}
	arrs := c06enum(alpha, maxLen)
	e := NewEnum(t, "C07", "exhaustive", checkC07)
	defer e.Done()
	e.r.Notes["arrays"] = len(arrs)
	for _, a := range arrs {
		if !e.Mine() {
			continue
		}
		for _, b := range arrs {
			e.Do(PairCase{A: a, B: b, Opts: "list"})
		}
	}
}
