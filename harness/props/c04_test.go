package props

import (
	"encoding/binary"
	"fmt"
	"math"
	"testing"

	"pgregory.net/rapid"

	"verifjd/gen"
	"verifjd/jdx"
	"verifjd/rec"
	"verifjd/val"
)

// C04 — Equals decides exactly the advertised equivalence.

// twin returns the float64 whose little-endian IEEE-754 bytes are the 8
// bytes of s.
func twin(s string) float64 {
	return math.Float64frombits(binary.LittleEndian.Uint64([]byte(s)))
}

var twinStrings = []string{"AAAAAAAA", "abcdefgh", "12345678", "        ", "zzzzzzzA", "\"\"\"\"\"\"\"@"}

// magicNumbers are the float64 values whose bytes equal the fixed 8-byte
// inputs jd hashes for null, the empty list, the empty object, the empty
// string, the empty set and the empty multiset (known finding D15: numbers
// carry no hash tag of their own).
var magicBytes = [][8]byte{
	{0xFE, 0x73, 0xAB, 0xCC, 0xE6, 0x32, 0xE0, 0x88}, // null
	{0xF5, 0x18, 0x0A, 0x71, 0xA4, 0xC4, 0x03, 0xF3}, // empty list
	{0x00, 0x5D, 0x39, 0xA4, 0x18, 0x10, 0xEA, 0xD5}, // empty object
	{0x8B, 0x1E, 0x52, 0x0C, 0x37, 0xA9, 0xD4, 0x61}, // empty string
	{0x6A, 0x11, 0xF0, 0x3C, 0x9D, 0x25, 0xB7, 0x4E}, // empty set
	{0xD1, 0x48, 0x0B, 0xE2, 0x75, 0x9C, 0x33, 0xA6}, // empty multiset
}

func magicNumbers() []float64 {
	var out []float64
	for _, b := range magicBytes {
		f := math.Float64frombits(binary.LittleEndian.Uint64(b[:]))
		if !math.IsNaN(f) && !math.IsInf(f, 0) {
			out = append(out, f)
		}
	}
	return out
}

func containsMagic(vs ...val.V) bool {
	magic := magicNumbers()
	found := false
	var walk func(v val.V)
	walk = func(v val.V) {
		switch x := v.(type) {
		case float64:
			for _, m := range magic {
				if x == m {
					found = true
				}
			}
		case []val.V:
			for _, e := range x {
				walk(e)
			}
		case map[string]val.V:
			for _, e := range x {
				walk(e)
			}
		}
	}
	for _, v := range vs {
		walk(v)
	}
	return found
}

// confusables: values of different JSON types that an untagged hash could
// mix up.
func confusables() []val.V {
	out := []val.V{
		"", []val.V{}, map[string]val.V{}, nil, 0.0, math.Copysign(0, -1), false, true, "0", "null", "[]", "{}", "false",
		[]val.V{[]val.V{}}, []val.V{map[string]val.V{}}, []val.V{""}, []val.V{nil}, []val.V{0.0}, []val.V{false},
		map[string]val.V{"": ""}, map[string]val.V{"a": []val.V{}}, map[string]val.V{"a": ""}, 1.0, "1",
	}
	for _, s := range twinStrings {
		f := twin(s)
		if !math.IsNaN(f) && !math.IsInf(f, 0) {
			out = append(out, s, f)
		}
	}
	return out
}

func checkC04(c PairCase, r *rec.Rec) error {
	av, err := val.Parse(c.A)
	if err != nil {
		return fmt.Errorf("bad case: %v", err)
	}
	bv, err := val.Parse(c.B)
	if err != nil {
		return fmt.Errorf("bad case: %v", err)
	}
	opts := jdx.Options(c.Opts)
	var want bool
	if eps, ok := jdx.Precision(c.Opts); ok {
		want = val.EqualPrec(av, bv, eps)
	} else {
		want = val.Equal(av, bv, jdx.Reading(c.Opts))
	}
	viol := rec.Violated
	if containsMagic(av, bv) {
		viol = func(f string, a ...interface{}) error { return rec.Known("D15", f, a...) }
	}
	a, b := jdx.NodeText(c.A), jdx.NodeText(c.B)
	got := a.Equals(b, opts...)
	if got != want {
		return viol("Equals(%s, %s) under %s = %v, the values are %s", c.A, c.B, c.Opts, got, map[bool]string{true: "the same", false: "different"}[want])
	}
	if back := b.Equals(a, opts...); back != got {
		return viol("Equals is not symmetric on %s, %s under %s: %v vs %v", c.A, c.B, c.Opts, got, back)
	}
	if !a.Equals(jdx.NodeText(c.A), opts...) {
		return viol("Equals is not reflexive on %s under %s", c.A, c.Opts)
	}
	if !b.Equals(jdx.NodeText(c.B), opts...) {
		return viol("Equals is not reflexive on %s under %s", c.B, c.Opts)
	}
	cls := []string{"opts=" + c.Opts}
	nearMiss := false
	if c.A != c.B {
		if want {
			cls = append(cls, "equal-but-texts-differ")
		} else {
			cls = append(cls, "unequal")
			// near miss: equal under some other reading, or different kinds
			if val.Equal(av, bv, val.Set) || val.Kind(av) != val.Kind(bv) || val.EqualPrec(av, bv, 1) {
				nearMiss = true
				cls = append(cls, "near-miss")
			}
		}
	} else {
		cls = append(cls, "same-text")
	}
	nontrivial := c.A != c.B && (want || nearMiss)
	r.Case(c.A+"|"+c.B+"|"+c.Opts, nontrivial, cls...)
	if nontrivial {
		r.Sample(c)
	}
	return nil
}

func init() { Register("C04", "random", checkC04); Register("C04", "exhaustive", checkC04) }

var c04OptSets = []string{"list", "set", "mset", "setkeys:id", "setkeys:id,k", "set+mset", "mset+set"}
var c04Eps = []float64{0.1, 0.5, 1, 1e-9, 0.001}

// injectConfusables replaces some leaves and elements by confusable values.
func injectConfusables(t *rapid.T, v val.V, pct int) val.V {
	pool := confusables()
	var walk func(v val.V, depth int) val.V
	walk = func(v val.V, depth int) val.V {
		if depth > 0 && gen.Chance(t, "confuse", pct) {
			return val.Clone(gen.Pick(t, "confusable", pool))
		}
		switch x := v.(type) {
		case []val.V:
			out := make([]val.V, len(x))
			for i, e := range x {
				out[i] = walk(e, depth+1)
			}
			return out
		case map[string]val.V:
			out := map[string]val.V{}
			for _, k := range val.Keys(x) {
				out[k] = walk(x[k], depth+1)
			}
			return out
		}
		return v
	}
	return walk(v, 0)
}

// swapOneConfusable replaces exactly one drawn position by a confusable.
func swapOneConfusable(t *rapid.T, v val.V) val.V {
	pool := confusables()
	repl := val.Clone(gen.Pick(t, "confusable", pool))
	switch x := v.(type) {
	case []val.V:
		if len(x) == 0 || gen.Chance(t, "here", 20) {
			return repl
		}
		out := append([]val.V{}, x...)
		i := gen.Int(t, "at", 0, len(x)-1)
		out[i] = swapOneConfusable(t, x[i])
		return out
	case map[string]val.V:
		if len(x) == 0 || gen.Chance(t, "here", 20) {
			return repl
		}
		out := map[string]val.V{}
		for k, e := range x {
			out[k] = e
		}
		k := gen.Pick(t, "atKey", val.Keys(x))
		out[k] = swapOneConfusable(t, x[k])
		return out
	}
	return repl
}

// nudgeNumbers moves numbers by multiples of eps around the boundary.
func nudgeNumbers(t *rapid.T, v val.V, eps float64) val.V {
	factors := []float64{0, 0.5, 1, 1 + 1.0/(1<<20), 2, -0.5, -1, -2, 0.999999}
	switch x := v.(type) {
	case float64:
		if gen.Chance(t, "nudge", 60) {
			return x + eps*gen.Pick(t, "factor", factors)
		}
		return x
	case []val.V:
		out := make([]val.V, len(x))
		for i, e := range x {
			out[i] = nudgeNumbers(t, e, eps)
		}
		return out
	case map[string]val.V:
		out := map[string]val.V{}
		for _, k := range val.Keys(x) {
			out[k] = nudgeNumbers(t, x[k], eps)
		}
		return out
	}
	return v
}

// genEqPair draws a pair on the decision boundary of Equals.
func genEqPair(t *rapid.T, optSets []string, withPrecision bool) PairCase {
	var opts string
	if withPrecision && gen.Chance(t, "precision", 18) {
		eps := gen.Pick(t, "eps", c04Eps)
		opts = fmt.Sprintf("prec:%v", eps)
		p := gen.Profile{Floats: true, VoidRoot: true}
		a := gen.Doc(t, p)
		if gen.Chance(t, "longNumbers", 8) {
			// a long list of numbers, a few of them moved by less than eps
			n := gen.Int(t, "nNumbers", 60, 150*gen.Scale())
			if gen.Rare(t, "veryLong", 15) {
				n = gen.Int(t, "nVeryLong", 1024, 1200*gen.Scale())
			}
			l := make([]val.V, n)
			for i := range l {
				l[i] = float64(i%7) + 0.25
			}
			l2 := val.Clone(l).([]val.V)
			for k := gen.Int(t, "nMoved", 1, 3); k > 0; k-- {
				i := gen.Int(t, "movedAt", 0, n-1)
				l2[i] = l2[i].(float64) + eps*gen.Pick(t, "factor", []float64{0.5, 0.25, -0.5, 0.999, 1.5, 2})
			}
			var av, bv val.V = l, l2
			if gen.Chance(t, "nested", 40) {
				av, bv = map[string]val.V{"k": []val.V{"x", l}}, map[string]val.V{"k": []val.V{"x", l2}}
			}
			return PairCase{A: val.JSON(av), B: val.JSON(bv), Opts: opts}
		}
		var b val.V
		switch gen.Int(t, "precMode", 0, 3) {
		case 0:
			b = gen.Edit(t, a, p)
		default:
			b = nudgeNumbers(t, a, eps)
		}
		return PairCase{A: val.JSON(a), B: val.JSON(b), Opts: opts}
	}
	opts = gen.Pick(t, "opts", optSets)
	if gen.Chance(t, "hashShape", 3) && jdx.SetKeysOf(opts) == nil {
		a, b := hashShapePair(t)
		if jdx.IsMerge(opts) {
			a, b = stripNulls(a), stripNulls(b)
		}
		return PairCase{A: val.JSON(a), B: val.JSON(b), Opts: opts}
	}
	p := profileFor(opts)
	p.Floats = gen.Chance(t, "floats", 30)
	a := gen.Doc(t, p)
	if !val.IsVoid(a) && gen.Chance(t, "inject", 40) {
		a = injectConfusables(t, a, 15)
		if jdx.IsMerge(opts) && val.HasNull(a) {
			a = stripNulls(a)
		}
	}
	var b val.V
	mode := gen.Int(t, "eqMode", 0, 99)
	switch {
	case val.IsVoid(a):
		b = gen.Doc(t, p)
	case mode < 22:
		b = gen.Permute(t, a, 70)
	case mode < 40:
		b = gen.DupSome(t, a, 30)
	case mode < 50:
		b = gen.DupSome(t, gen.Permute(t, a, 70), 30)
	case mode < 60:
		b = gen.Edit(t, a, p)
	case mode < 64:
		// the smallest possible differences: adjacent floats, strings that differ in their last byte
		b = nearTwins(t, a)
	case mode < 68:
		// the same keys and the same values, differently paired
		b = gen.SwapValues(t, a, 60)
		if gen.Chance(t, "andPermute", 50) {
			b = gen.Permute(t, b, 60)
		}
	case mode < 85:
		b = swapOneConfusable(t, a)
	case mode < 92:
		pool := confusables()
		a = val.Clone(gen.Pick(t, "rootA", pool))
		b = val.Clone(gen.Pick(t, "rootB", pool))
	default:
		b = gen.Doc(t, p)
	}
	if jdx.IsMerge(opts) {
		a, b = stripNulls(a), stripNulls(b)
	}
	if ks := jdx.SetKeysOf(opts); ks != nil {
		// Precondition of SetKeys: complete, unique key tuples per array.
		if !val.IsVoid(a) {
			a = gen.Keyify(a, ks)
		}
		if !val.IsVoid(b) {
			b = gen.Keyify(b, ks)
		}
	}
	return PairCase{A: val.JSON(a), B: val.JSON(b), Opts: opts}
}

// nearTwins replaces some scalars by their nearest neighbours.
func nearTwins(t *rapid.T, v val.V) val.V {
	switch x := v.(type) {
	case []val.V:
		out := make([]val.V, len(x))
		for i, e := range x {
			out[i] = nearTwins(t, e)
		}
		return out
	case map[string]val.V:
		out := map[string]val.V{}
		for _, k := range val.Keys(x) {
			out[k] = nearTwins(t, x[k])
		}
		return out
	}
	if gen.Chance(t, "twin", 35) {
		if nv, ok := gen.NearScalar(t, v); ok {
			return nv
		}
	}
	return v
}

// stripNulls replaces nulls by a string so that merge preconditions hold.
func stripNulls(v val.V) val.V {
	switch x := v.(type) {
	case nil:
		return "was-null"
	case []val.V:
		out := make([]val.V, len(x))
		for i, e := range x {
			out[i] = stripNulls(e)
		}
		return out
	case map[string]val.V:
		out := map[string]val.V{}
		for k, e := range x {
			out[k] = stripNulls(e)
		}
		return out
	}
	return v
}

func TestC04Random(t *testing.T) {
	RunRandom(t, "C04", "random", func(t *rapid.T) PairCase {
		if gen.Chance(t, "lookAlikes", 4) {
			// Equals under SetKeys is set equality of whole members: members
			// that share their key values but differ elsewhere stay distinct
			n := gen.Int(t, "nLookAlikes", 2, 3)
			var a []val.V
			for i := 0; i < n; i++ {
				a = append(a, map[string]val.V{"id": 1.0, "v": float64(i)})
			}
			if gen.Chance(t, "otherMember", 50) {
				a = append(a, map[string]val.V{"id": 2.0, "v": 0.0})
			}
			var b []val.V
			switch gen.Int(t, "lookAlikeB", 0, 3) {
			case 0: // the last look-alike only
				b = append(b, val.Clone(a[n-1]))
				b = append(b, a[n:]...)
			case 1: // reversed
				for i := len(a) - 1; i >= 0; i-- {
					b = append(b, val.Clone(a[i]))
				}
			case 2: // the first one twice
				b = append([]val.V{val.Clone(a[0])}, a...)
			default: // one of them changed
				b = val.Clone(val.V(a)).([]val.V)
				b[0].(map[string]val.V)["v"] = "changed"
			}
			var av, bv val.V = a, b
			if gen.Chance(t, "underKey", 40) {
				av, bv = map[string]val.V{"k": a}, map[string]val.V{"k": b}
			}
			return PairCase{A: val.JSON(av), B: val.JSON(bv), Opts: gen.Pick(t, "lookAlikeOpts", []string{"setkeys:id", "setkeys:id", "set", "mset"})}
		}
		return genEqPair(t, c04OptSets, true)
	}, checkC04)
}

func TestC04Exhaustive(t *testing.T) {
	pool := confusables()
	e := NewEnum(t, "C04", "exhaustive", checkC04)
	defer e.Done()
	e.r.Notes["atoms"] = len(pool)
	wrap := func(v val.V, w int) val.V {
		switch w {
		case 1:
			return []val.V{v}
		case 2:
			return []val.V{v, v}
		case 3:
			return map[string]val.V{"k": []val.V{1.0, v}}
		}
		return v
	}
	for _, x := range pool {
		if !e.Mine() {
			continue
		}
		for _, y := range pool {
			for wa := 0; wa < 4; wa++ {
				for wb := 0; wb < 4; wb++ {
					if (wa == 3) != (wb == 3) {
						continue
					}
					for _, opts := range append(append([]string{}, c04OptSets...), "prec:0.5") {
						e.Do(PairCase{A: val.JSON(wrap(x, wa)), B: val.JSON(wrap(y, wb)), Opts: opts})
					}
				}
			}
		}
		// the void document against every atom
		for _, opts := range c04OptSets {
			e.Do(PairCase{A: "", B: val.JSON(x), Opts: opts})
			e.Do(PairCase{A: val.JSON(x), B: "", Opts: opts})
		}
	}
}

// ---- documents obtained from Patch are documents like any other

func checkC04Patched(c PatchedCase, r *rec.Rec) error {
	mk, pv, err := patchedDoc(c)
	if err != nil {
		r.Class("skipped:" + err.Error())
		return nil
	}
	bv, err := val.Parse(c.B)
	if err != nil {
		return fmt.Errorf("bad case: %v", err)
	}
	if containsMagic(pv, bv) {
		r.Class("skipped:magic-number")
		return nil
	}
	opts := jdx.Options(c.Opts)
	want := val.Equal(pv, bv, jdx.Reading(c.Opts))
	got := mk().Equals(jdx.NodeText(c.B), opts...)
	back := jdx.NodeText(c.B).Equals(mk(), opts...)
	if got != want || back != want {
		return rec.Violated("a' = Patch(%s, diff to %s under %s) = %s; under %s Equals(a', %s) = %v and Equals(b, a') = %v, the values are %s", c.A, c.X, c.PatchOpts, val.JSON(pv), c.Opts, c.B, got, back, map[bool]string{true: "the same", false: "different"}[want])
	}
	if !mk().Equals(mk(), opts...) {
		return rec.Violated("Equals is not reflexive on the patched document %s under %s", val.JSON(pv), c.Opts)
	}
	cls := []string{"opts=" + c.Opts, "patch-opts=" + c.PatchOpts}
	if want {
		cls = append(cls, "equal")
	} else {
		cls = append(cls, "unequal")
	}
	r.Case(fmt.Sprintf("%v", c), c.A != c.X && c.Opts != c.PatchOpts, cls...)
	if c.A != c.X && c.Opts != c.PatchOpts {
		r.Sample(c)
	}
	return nil
}

func init() { Register("C04", "patched", checkC04Patched) }

func TestC04Patched(t *testing.T) { RunRandom(t, "C04", "patched", genPatchedCase, checkC04Patched) }
