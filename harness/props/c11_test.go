package props

import (
	"fmt"
	"math"
	"strings"
	"testing"

	jd "github.com/josephburnett/jd/v2"
	"pgregory.net/rapid"

	"verifjd/gen"
	"verifjd/jdx"
	"verifjd/rec"
	"verifjd/ref"
	"verifjd/val"
)

// C11 — RFC 7386 output means the same as the merge diff.
// C12 — RFC 7386 input is applied as the RFC specifies.

// The binaries always append Precision(0) to the option list.
var c11OptSets = []string{"merge", "set+merge", "mset+merge", "merge+prec:0", "set+merge+prec:0", "mset+merge+prec:0"}

func mergePatchClasses(m val.V) (cls []string) {
	var walk func(v val.V, depth int)
	walk = func(v val.V, depth int) {
		switch x := v.(type) {
		case nil:
			cls = append(cls, "patch-has-null")
		case map[string]val.V:
			if len(x) == 0 {
				if depth > 0 {
					cls = append(cls, "patch-has-nested-{}")
				} else {
					cls = append(cls, "patch-is-{}")
				}
			}
			for _, e := range x {
				walk(e, depth+1)
			}
		case []val.V:
			cls = append(cls, "patch-has-array")
		}
	}
	walk(m, 0)
	return dedupStrings(cls)
}

func checkC11(c PairCase, r *rec.Rec) error {
	av, err := val.Parse(c.A)
	if err != nil {
		return fmt.Errorf("bad case: %v", err)
	}
	bv, err := val.Parse(c.B)
	if err != nil {
		return fmt.Errorf("bad case: %v", err)
	}
	if val.HasNull(av) || val.HasNull(bv) || val.IsVoid(av) || val.IsVoid(bv) {
		return fmt.Errorf("bad case: null-free, non-void documents wanted")
	}
	opts := jdx.Options(c.Opts)
	rd := jdx.Reading(c.Opts)
	if jdx.NodeText(c.A).Equals(jdx.NodeText(c.B), opts...) {
		r.Class("skipped:equal")
		return nil
	}
	var d jd.Diff
	if msg, p := jdx.Guard(func() { d = jdx.NodeText(c.A).Diff(jdx.NodeText(c.B), opts...) }); p {
		return rec.Violated("Diff panicked: %s", msg)
	}
	native := d.Render()
	var mtext string
	var merr error
	if msg, p := jdx.Guard(func() { mtext, merr = d.RenderMerge() }); p {
		return rec.Violated("RenderMerge panicked: %s\nnative diff:\n%s", msg, native)
	}
	if merr != nil {
		return rec.Violated("RenderMerge fails on a merge-mode diff: %v\nnative diff:\n%s", merr, native)
	}
	mv, err := val.Parse(mtext)
	if err != nil || val.IsVoid(mv) {
		return rec.Violated("RenderMerge output is not a JSON document: %q (%v)\nnative diff:\n%s", mtext, err, native)
	}
	got := ref.MergePatch(av, mv)
	if !val.Equal(got, bv, rd) {
		return rec.Violated("MergePatch(a, %s) = %s, not b = %s (reading: %s)\nnative diff:\n%s", mtext, val.JSON(got), c.B, rd, native)
	}
	cls := append([]string{"opts=" + c.Opts}, mergePatchClasses(mv)...)
	if !jdx.NodeText(val.JSON(got)).Equals(jdx.NodeText(c.B), opts...) {
		cls = append(cls, "canon-equal-but-jd-Equals-differs")
	}
	_, aObj := av.(map[string]val.V)
	_, bObj := bv.(map[string]val.V)
	nontrivial := false
	for _, k := range cls {
		if k == "patch-has-null" || k == "patch-has-nested-{}" || k == "patch-is-{}" {
			nontrivial = true
		}
	}
	if aObj != bObj || !isScalar(av) != !isScalar(bv) {
		cls = append(cls, "container<->other")
		nontrivial = true
	}
	r.Case(c.A+"|"+c.B+"|"+c.Opts, nontrivial, cls...)
	if nontrivial {
		r.Sample(c)
	}
	return nil
}

func genC11(t *rapid.T) PairCase {
	opts := gen.Pick(t, "opts", c11OptSets)
	p := gen.Profile{NullFree: true, MaxDepth: 4, Floats: gen.Chance(t, "floats", 30)}
	if gen.Chance(t, "nasty", 15) {
		p.NastyKeys = true
		p.Payload = true
	}
	var a val.V
	if gen.Chance(t, "objectRoot", 75) {
		a = gen.Object(t, p, 0)
	} else {
		a = gen.Doc(t, p)
	}
	var b val.V
	switch gen.Int(t, "mode", 0, 10) {
	case 0:
		b = gen.Doc(t, p)
	case 1:
		b = map[string]val.V{}
	case 10:
		b = gen.SwapValues(t, a, 50)
		if gen.Chance(t, "andPermute", 50) {
			b = gen.Permute(t, b, 60)
		}
	default:
		b = gen.EditN(t, a, p, 1, 5)
	}
	if gen.Chance(t, "deep", 25) {
		a, b = gen.DeepPair(t, a, b, p)
	}
	// bias: empty objects at depth on either side
	if gen.Chance(t, "emptyObjs", 25) {
		a = sprinkleEmptyObjects(t, a)
		b = sprinkleEmptyObjects(t, b)
	}
	if gen.Chance(t, "pathTwins", 10) {
		a, b = gen.PathTwins(t, a, b, p)
	}
	if gen.Chance(t, "repeatedBlocks", 4) {
		a, b = gen.RepeatedBlocks(t, p)
	}
	if gen.Chance(t, "longTwins", 4) {
		// two long strings with a long common prefix, as array members
		n := gen.Pick(t, "prefixLen", []int{57, 250, 1017, 1100, 4097, 70000})
		pre := strings.Repeat("p", n)
		var x, y val.V = pre + "1", pre + "2"
		if gen.Chance(t, "inObject", 40) {
			x, y = map[string]val.V{"s": x}, map[string]val.V{"s": y}
		}
		la, lb := []val.V{x, "other"}, []val.V{y, "other"}
		if gen.Chance(t, "dupCounts", 30) {
			la, lb = []val.V{x, x, "other"}, []val.V{x, "other", "other"}
		}
		if ao, ok := a.(map[string]val.V); ok {
			if bo, ok := b.(map[string]val.V); ok {
				ao["long"], bo["long"] = la, lb
			}
		} else {
			a, b = la, lb
		}
	}
	return PairCase{A: val.JSON(a), B: val.JSON(b), Opts: opts}
}

// sprinkleNulls turns some scalar members of nested objects into null or {}.
func sprinkleNulls(t *rapid.T, v val.V) val.V {
	o, ok := v.(map[string]val.V)
	if !ok {
		return v
	}
	out := map[string]val.V{}
	for _, k := range val.Keys(o) {
		switch x := o[k].(type) {
		case map[string]val.V:
			out[k] = sprinkleNulls(t, x)
		default:
			switch r := gen.Int(t, "nullify", 0, 99); {
			case r < 20:
				out[k] = nil
			case r < 28:
				out[k] = map[string]val.V{}
			default:
				out[k] = x
			}
		}
	}
	return out
}

func sprinkleEmptyObjects(t *rapid.T, v val.V) val.V {
	switch x := v.(type) {
	case map[string]val.V:
		out := map[string]val.V{}
		for _, k := range val.Keys(x) {
			if gen.Chance(t, "toEmpty", 15) {
				out[k] = map[string]val.V{}
			} else {
				out[k] = sprinkleEmptyObjects(t, x[k])
			}
		}
		return out
	}
	return v
}

// ---------------------------------------------------------------- C12

type MergeCase struct {
	Target string `json:"target"`
	Patch  string `json:"patch"`
}

func checkC12(c MergeCase, r *rec.Rec) error {
	tv, err := val.Parse(c.Target)
	if err != nil || val.IsVoid(tv) {
		return fmt.Errorf("bad case: %v", err)
	}
	pv, err := val.Parse(c.Patch)
	if err != nil || val.IsVoid(pv) {
		return fmt.Errorf("bad case: %v", err)
	}
	viol := rec.Violated
	_, targetIsObj := tv.(map[string]val.V)
	po, patchIsObj := pv.(map[string]val.V)
	switch {
	case pv == nil:
		viol = func(f string, a ...interface{}) error { return rec.Known("D16", f, a...) }
	case patchIsObj && len(po) == 0 && !targetIsObj:
		viol = func(f string, a ...interface{}) error { return rec.Known("D17", f, a...) }
	}
	want := ref.MergePatch(tv, pv)
	var d jd.Diff
	var rerr error
	if msg, p := jdx.Guard(func() { d, rerr = jd.ReadMergeString(c.Patch) }); p {
		return viol("ReadMergeString panicked: %s", msg)
	}
	if rerr != nil {
		return viol("ReadMergeString rejects the merge patch %s: %v", c.Patch, rerr)
	}
	out := jdx.Patch(jdx.NodeText(c.Target), d)
	if !out.OK() {
		return viol("merge patch %s does not apply to %s: %s\nas read by jd:\n%s", c.Patch, c.Target, okWord(out), d.Render())
	}
	gotText := out.Node.Json()
	got, err := val.Parse(gotText)
	if err != nil {
		return viol("result of Patch is not readable JSON: %v", err)
	}
	if !val.Equal(got, want, val.List) {
		return viol("MergePatch(%s, %s) = %s but jd gives %s\nas read by jd:\n%s", c.Target, c.Patch, val.JSON(want), showText(gotText), d.Render())
	}
	cls := mergePatchClasses(pv)
	nontrivial := false
	for _, k := range cls {
		if k == "patch-has-null" || k == "patch-has-nested-{}" {
			nontrivial = true
		}
	}
	if patchIsObj && !targetIsObj {
		cls = append(cls, "object-patch-on-non-object")
		nontrivial = true
	}
	if !patchIsObj {
		cls = append(cls, "non-object-patch")
	}
	cls = append(cls, nestedEmptyClasses(tv, pv)...)
	r.Case(c.Target+"|"+c.Patch, nontrivial, cls...)
	if nontrivial {
		r.Sample(c)
	}
	return nil
}

func showText(s string) string {
	if s == "" {
		return "<the empty document>"
	}
	return s
}

// nestedEmptyClasses says over what kind of target value a nested {} or
// null of the patch lands.
func nestedEmptyClasses(target, patch val.V) []string {
	var cls []string
	var walk func(tv val.V, present bool, pv val.V, depth int)
	walk = func(tv val.V, present bool, pv val.V, depth int) {
		po, ok := pv.(map[string]val.V)
		if !ok {
			if pv == nil && depth > 0 {
				if present {
					cls = append(cls, "null-over-present-key")
				} else {
					cls = append(cls, "null-over-absent-key")
				}
			}
			return
		}
		to, tIsObj := tv.(map[string]val.V)
		if len(po) == 0 && depth > 0 {
			switch {
			case !present:
				cls = append(cls, "{}-over-absent-key")
			case tIsObj:
				cls = append(cls, "{}-over-object")
			default:
				cls = append(cls, "{}-over-non-object")
			}
		}
		for k, e := range po {
			var child val.V
			has := false
			if tIsObj {
				child, has = to[k]
			}
			walk(child, has, e, depth+1)
		}
	}
	walk(target, true, patch, 0)
	return dedupStrings(cls)
}

func genMergeDoc(t *rapid.T, target val.V) val.V {
	p := gen.Profile{MaxDepth: 3, NastyKeys: gen.Chance(t, "nastyPatchKeys", 25)}
	switch gen.Int(t, "patchKind", 0, 9) {
	case 0:
		return gen.Doc(t, p) // independent: arrays, scalars, null at the root
	case 1:
		return gen.Scalar(t, p)
	}
	base := gen.Edit(t, target, p)
	if _, ok := base.(map[string]val.V); !ok {
		base = gen.Object(t, p, 0)
	}
	var inject func(v val.V, depth int) val.V
	inject = func(v val.V, depth int) val.V {
		o, ok := v.(map[string]val.V)
		if !ok {
			return v
		}
		out := map[string]val.V{}
		for _, k := range val.Keys(o) {
			switch r := gen.Int(t, "inject", 0, 99); {
			case r < 12:
				out[k] = nil
			case r < 24:
				out[k] = map[string]val.V{}
			default:
				out[k] = inject(o[k], depth+1)
			}
		}
		if gen.Chance(t, "newKey", 25) {
			out[gen.Pick(t, "nk", []string{"a", "b", "c", "new", "", "-", "1"})] = gen.Pick(t, "nv", []val.V{nil, map[string]val.V{}, 1.0, map[string]val.V{"x": nil}, map[string]val.V{"x": map[string]val.V{}}})
		}
		return out
	}
	return inject(base, 0)
}

func genC12(t *rapid.T) MergeCase {
	p := gen.Profile{MaxDepth: 3, NastyKeys: gen.Chance(t, "nasty", 30)}
	if gen.Chance(t, "deep", 30) {
		// target and patch share a chain of up to 6 objects with siblings;
		// the patch side gets nulls and empty objects sprinkled in
		ta := gen.Object(t, p, 1)
		pa := genMergeDoc(t, ta)
		tv, pv := gen.DeepPair(t, ta, pa, p)
		pv = sprinkleNulls(t, pv)
		return MergeCase{Target: val.JSON(tv), Patch: val.JSON(pv)}
	}
	var target val.V
	if gen.Chance(t, "objectTarget", 70) {
		target = gen.Object(t, p, 0)
	} else {
		target = gen.Doc(t, p)
	}
	return MergeCase{Target: val.JSON(target), Patch: val.JSON(genMergeDoc(t, target))}
}

// grammar: v ::= 1 | null | [1] | {} | {"a":v} | {"a":v,"b":v} (thorough adds "s")
func c12grammar(depth int, leaves []val.V) []val.V {
	if depth == 0 {
		return leaves
	}
	sub := c12grammar(depth-1, leaves)
	out := append([]val.V{}, leaves...)
	for _, x := range sub {
		out = append(out, map[string]val.V{"a": x})
	}
	for _, x := range sub {
		for _, y := range sub {
			out = append(out, map[string]val.V{"a": x, "b": y})
		}
	}
	// de-duplicate
	seen := map[string]bool{}
	var uniq []val.V
	for _, v := range out {
		c := val.JSON(v)
		if !seen[c] {
			seen[c] = true
			uniq = append(uniq, v)
		}
	}
	return uniq
}

func TestC12Exhaustive(t *testing.T) {
	leaves := []val.V{1.0, nil, []val.V{1.0}, map[string]val.V{}}
	if thorough() {
		leaves = append(leaves, "s")
	}
	vals := c12grammar(2, leaves)
	e := NewEnum(t, "C12", "exhaustive", checkC12)
	defer e.Done()
	e.r.Notes["values"] = len(vals)
	for _, tv := range vals {
		if !e.Mine() {
			continue
		}
		tt := val.JSON(tv)
		for _, pv := range vals {
			e.Do(MergeCase{Target: tt, Patch: val.JSON(pv)})
		}
	}
}

func init() {
	Register("C11", "random", checkC11)
	Register("C12", "random", checkC12)
	Register("C12", "exhaustive", checkC12)
}

func TestC11Random(t *testing.T) { RunRandom(t, "C11", "random", genC11, checkC11) }
func TestC12Random(t *testing.T) { RunRandom(t, "C12", "random", genC12, checkC12) }

// ---- C12 chain: several merge patches applied one after the other to the
// document value returned by the previous Patch (no re-parsing in between),
// against the RFC pseudocode folded over the same patches. After every step
// a fixed probe patch is applied to a fresh document as well, so that state
// leaking from one call into later ones shows up.

type MergeChainCase struct {
	Target  string   `json:"target"`
	Patches []string `json:"patches"`
}

func checkC12Chain(c MergeChainCase, r *rec.Rec) error {
	model, err := val.Parse(c.Target)
	if err != nil || val.IsVoid(model) {
		return fmt.Errorf("bad case: %v", err)
	}
	node := jdx.NodeText(c.Target)
	nontrivial := false
	for i, ptext := range c.Patches {
		pv, err := val.Parse(ptext)
		if err != nil || val.IsVoid(pv) {
			return fmt.Errorf("bad case: %v", err)
		}
		_, modelIsObj := model.(map[string]val.V)
		if po, ok := pv.(map[string]val.V); pv == nil || (ok && len(po) == 0 && !modelIsObj) {
			r.Class("skipped:root-null-or-{}-patch (D16/D17)")
			return nil
		}
		var d jd.Diff
		var rerr error
		if msg, p := jdx.Guard(func() { d, rerr = jd.ReadMergeString(ptext) }); p {
			return rec.Violated("ReadMergeString panicked: %s", msg)
		}
		if rerr != nil {
			return rec.Violated("step %d: ReadMergeString rejects %s: %v", i, ptext, rerr)
		}
		out := jdx.Patch(node, d)
		if !out.OK() {
			return rec.Violated("step %d: merge patch %s does not apply to the document from the previous step (%s): %s", i, ptext, val.JSON(model), okWord(out))
		}
		node = out.Node
		model = ref.MergePatch(model, pv)
		got, err := val.Parse(node.Json())
		if err != nil {
			return rec.Violated("step %d: result is not readable JSON: %v", i, err)
		}
		if !val.Equal(got, model, val.List) {
			return rec.Violated("step %d of %v on %s: jd gives %s, folding the RFC 7386 algorithm gives %s", i, c.Patches, c.Target, val.JSON(got), val.JSON(model))
		}
		if i > 0 {
			nontrivial = true
		}
		// probe: a fresh read-and-apply must not be influenced by what happened before
		for _, probe := range [][3]string{
			{`{"a":1}`, `{"z":{}}`, `{"a":1,"z":{}}`},
			{`{"z":5}`, `{"z":{"y":{}}}`, `{"z":{"y":{}}}`},
			{`{}`, `{"p":{},"q":{}}`, `{"p":{},"q":{}}`},
		} {
			pd, err := jd.ReadMergeString(probe[1])
			if err != nil {
				return rec.Violated("probe patch %s rejected: %v", probe[1], err)
			}
			po := jdx.Patch(jdx.NodeText(probe[0]), pd)
			if !po.OK() || po.Node.Json() != probe[2] {
				res := okWord(po)
				if po.OK() {
					res = po.Node.Json()
				}
				return rec.Violated("after step %d of %v on %s: the unrelated merge patch %s applied to a fresh %s gives %s instead of %s (state leaks between calls)", i, c.Patches, c.Target, probe[1], probe[0], res, probe[2])
			}
		}
	}
	r.Case(fmt.Sprintf("%v", c), nontrivial, fmt.Sprintf("steps=%d", len(c.Patches)))
	if nontrivial {
		r.Sample(c)
	}
	return nil
}

func genC12Chain(t *rapid.T) MergeChainCase {
	p := gen.Profile{MaxDepth: 3, NastyKeys: gen.Chance(t, "nasty", 30)}
	target := gen.Object(t, p, 0)
	c := MergeChainCase{Target: val.JSON(target)}
	model := target
	n := gen.Int(t, "nPatches", 2, 4)
	for i := 0; i < n; i++ {
		pv := genMergeDoc(t, model)
		if o, ok := pv.(map[string]val.V); !ok || len(o) == 0 || pv == nil {
			pv = map[string]val.V{gen.Pick(t, "k", []string{"a", "b", "c"}): map[string]val.V{}}
		}
		c.Patches = append(c.Patches, val.JSON(pv))
		model = ref.MergePatch(model, pv)
	}
	return c
}

func init() { Register("C12", "chain", checkC12Chain) }

func TestC12Chain(t *testing.T) { RunRandom(t, "C12", "chain", genC12Chain, checkC12Chain) }

// ---- C12 through the binaries: jd -f merge -p PATCH TARGET (optionally -yaml)

type MergeCLICase struct {
	Target string `json:"target"`
	Patch  string `json:"patch"`
	Yaml   bool   `json:"yaml"`
	Stdin  bool   `json:"stdin"`
	Bin    string `json:"bin"`
	// JdYaml: with -yaml the target is written by jd's own Yaml() (block
	// scalars for multi-line strings) instead of the harness's emitter.
	JdYaml bool `json:"jd_yaml,omitempty"`
	// OutFile: the result goes to -o over an existing longer file.
	OutFile bool `json:"out_file,omitempty"`
}

func checkC12CLI(c MergeCLICase, r *rec.Rec) error {
	if !haveCLI() {
		return inconclusive{"jd binaries not built"}
	}
	tv, err := val.Parse(c.Target)
	if err != nil || val.IsVoid(tv) {
		return fmt.Errorf("bad case: %v", err)
	}
	pv, err := val.Parse(c.Patch)
	if err != nil || val.IsVoid(pv) {
		return fmt.Errorf("bad case: %v", err)
	}
	viol := rec.Violated
	_, targetIsObj := tv.(map[string]val.V)
	po, patchIsObj := pv.(map[string]val.V)
	switch {
	case pv == nil:
		viol = func(f string, a ...interface{}) error { return rec.Known("D16", f, a...) }
	case patchIsObj && len(po) == 0 && !targetIsObj:
		viol = func(f string, a ...interface{}) error { return rec.Known("D17", f, a...) }
	}
	want := ref.MergePatch(tv, pv)
	dir, cleanup := caseDir()
	defer cleanup()
	writeFile(dir, "p", c.Patch)
	args := []string{"-f=merge", "-p"}
	targetText := c.Target
	if c.Yaml {
		args = append(args, "-yaml")
		targetText = ref.YAMLEmit(tv)
		if c.JdYaml {
			targetText = jdx.NodeText(c.Target).Yaml()
		}
	}
	var res CLIResult
	if c.OutFile {
		writeFile(dir, "out", strings.Repeat("stale content of an earlier run\n", 100))
		args = append(args, "-o=out")
	}
	if c.Stdin {
		res = runCLI(c.Bin, append(args, "p"), &targetText, dir)
	} else {
		writeFile(dir, "t", targetText)
		res = runCLI(c.Bin, append(args, "p", "t"), nil, dir)
	}
	if err := cliTrouble(res); err != nil {
		return err
	}
	if c.OutFile && res.Status == 0 {
		if res.Stdout != "" {
			return viol("%s %s p t with -o prints %q to standard output", c.Bin, strings.Join(args, " "), res.Stdout)
		}
		res.Stdout = readFileOr(dir, "out")
	}
	desc := fmt.Sprintf("%s %s p t (p=%s t=%s)", c.Bin, strings.Join(args, " "), c.Patch, targetText)
	if res.Status != 0 {
		return viol("%s exits %d: %s", desc, res.Status, res.Stderr)
	}
	var got val.V
	if c.Yaml {
		n, err := jd.ReadYamlString(res.Stdout)
		if err != nil {
			return viol("%s prints unreadable YAML %q: %v", desc, res.Stdout, err)
		}
		got, err = val.Parse(n.Json())
		if err != nil {
			return fmt.Errorf("harness: %v", err)
		}
	} else {
		got, err = val.Parse(res.Stdout)
		if err != nil {
			return viol("%s prints unreadable JSON %q", desc, res.Stdout)
		}
	}
	if !val.Equal(got, want, val.List) {
		return viol("%s prints %s but MergePatch gives %s", desc, showText(res.Stdout), val.JSON(want))
	}
	cls := mergePatchClasses(pv)
	nontrivial := false
	for _, k := range cls {
		if k == "patch-has-null" || k == "patch-has-nested-{}" {
			nontrivial = true
		}
	}
	if c.Yaml {
		cls = append(cls, "yaml")
	}
	if c.Stdin {
		cls = append(cls, "stdin")
	}
	cls = append(cls, "bin="+c.Bin)
	r.Case(fmt.Sprintf("%v", c), nontrivial, cls...)
	if nontrivial {
		r.Sample(c)
	}
	return nil
}

// hostileMergeValues: member values on which JSON and YAML readers disagree,
// and text a formatting verb would mangle.
var hostileMergeValues = []val.V{
	"100%", "%d %s %v", "\u007f", "\u0085", "a\u0085b", "\ufffe", 9223372036854775808.0, 18446744073709549568.0,
	"\U0001f600", "/", "</script>", "%!(EXTRA)", math.Copysign(0, -1), 1e300, "line\n", "two\nlines\n", "nbsp\u00a0",
}

func genC12CLI(t *rapid.T) MergeCLICase {
	p := gen.Profile{MaxDepth: 3, NastyKeys: gen.Chance(t, "nasty", 40), Payload: true, Floats: gen.Chance(t, "floats", 40)}
	var target val.V
	if gen.Chance(t, "objectTarget", 75) {
		target = gen.Object(t, p, 0)
	} else {
		target = gen.Doc(t, p)
	}
	if to, ok := target.(map[string]val.V); ok && gen.Chance(t, "multiLineMember", 30) {
		to[gen.Pick(t, "mlk", []string{"zz", "text", "a"})] = gen.Pick(t, "mlv", []val.V{"line\n", "two\nlines\n", "keep\n\n", "nbsp\u00a0", " lead", "x\n "})
	}
	patch := genMergeDoc(t, target)
	if _, isObj := target.(map[string]val.V); isObj && gen.Chance(t, "emptyPatch", 6) {
		patch = map[string]val.V{}
	}
	if po, ok := patch.(map[string]val.V); ok && len(po) > 0 && gen.Chance(t, "payloadMember", 50) {
		// values on which JSON and YAML readers disagree, and text a
		// formatting verb would mangle
		po[gen.Pick(t, "pk", []string{"p", "100%", "a"})] = gen.Pick(t, "pv", hostileMergeValues)
	}
	return MergeCLICase{
		Target: val.JSON(target), Patch: val.JSON(patch),
		Yaml: gen.Chance(t, "yaml", 35), Stdin: gen.Chance(t, "stdin", 20), JdYaml: gen.Chance(t, "jdYaml", 50), OutFile: gen.Chance(t, "outFile", 25),
		Bin: gen.Pick(t, "bin", []string{"jd-v2", "jd-v2", "jd-top"}),
	}
}

func init() { Register("C12", "cli", checkC12CLI) }

func TestC12CLI(t *testing.T) { RunRandom(t, "C12", "cli", genC12CLI, checkC12CLI) }
