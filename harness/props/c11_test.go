package props

import (
	"fmt"
	"testing"

	jd "github.com/josephburnett/jd/v2"
	"pgregory.net/rapid"

	"verifjd/gen"
	"verifjd/jdx"
	"verifjd/rec"
	"verifjd/ref"
	"verifjd/val"
)

// C11 — RFC 7386 output means the same as the merge diff.
// C12 — RFC 7386 input is applied as the RFC specifies.

var c11OptSets = []string{"merge", "set+merge", "mset+merge"}

func mergePatchClasses(m val.V) (cls []string) {
	var walk func(v val.V, depth int)
	walk = func(v val.V, depth int) {
		switch x := v.(type) {
		case nil:
			cls = append(cls, "patch-has-null")
		case map[string]val.V:
			if len(x) == 0 {
				if depth > 0 {
					cls = append(cls, "patch-has-nested-{}")
				} else {
					cls = append(cls, "patch-is-{}")
				}
			}
			for _, e := range x {
				walk(e, depth+1)
			}
		case []val.V:
			cls = append(cls, "patch-has-array")
		}
	}
	walk(m, 0)
	return dedupStrings(cls)
}

func checkC11(c PairCase, r *rec.Rec) error {
	av, err := val.Parse(c.A)
	if err != nil {
		return fmt.Errorf("bad case: %v", err)
	}
	bv, err := val.Parse(c.B)
	if err != nil {
		return fmt.Errorf("bad case: %v", err)
	}
	if val.HasNull(av) || val.HasNull(bv) || val.IsVoid(av) || val.IsVoid(bv) {
		return fmt.Errorf("bad case: null-free, non-void documents wanted")
	}
	opts := jdx.Options(c.Opts)
	rd := jdx.Reading(c.Opts)
	if jdx.NodeText(c.A).Equals(jdx.NodeText(c.B), opts...) {
		r.Class("skipped:equal")
		return nil
	}
	var d jd.Diff
	if msg, p := jdx.Guard(func() { d = jdx.NodeText(c.A).Diff(jdx.NodeText(c.B), opts...) }); p {
		return rec.Violated("Diff panicked: %s", msg)
	}
	native := d.Render()
	var mtext string
	var merr error
	if msg, p := jdx.Guard(func() { mtext, merr = d.RenderMerge() }); p {
		return rec.Violated("RenderMerge panicked: %s\nnative diff:\n%s", msg, native)
	}
	if merr != nil {
		return rec.Violated("RenderMerge fails on a merge-mode diff: %v\nnative diff:\n%s", merr, native)
	}
	mv, err := val.Parse(mtext)
	if err != nil || val.IsVoid(mv) {
		return rec.Violated("RenderMerge output is not a JSON document: %q (%v)\nnative diff:\n%s", mtext, err, native)
	}
	got := ref.MergePatch(av, mv)
	if !val.Equal(got, bv, rd) {
		return rec.Violated("MergePatch(a, %s) = %s, not b = %s (reading: %s)\nnative diff:\n%s", mtext, val.JSON(got), c.B, rd, native)
	}
	cls := append([]string{"opts=" + c.Opts}, mergePatchClasses(mv)...)
	if !jdx.NodeText(val.JSON(got)).Equals(jdx.NodeText(c.B), opts...) {
		cls = append(cls, "canon-equal-but-jd-Equals-differs")
	}
	_, aObj := av.(map[string]val.V)
	_, bObj := bv.(map[string]val.V)
	nontrivial := false
	for _, k := range cls {
		if k == "patch-has-null" || k == "patch-has-nested-{}" || k == "patch-is-{}" {
			nontrivial = true
		}
	}
	if aObj != bObj || !isScalar(av) != !isScalar(bv) {
		cls = append(cls, "container<->other")
		nontrivial = true
	}
	r.Case(c.A+"|"+c.B+"|"+c.Opts, nontrivial, cls...)
	if nontrivial {
		r.Sample(c)
	}
	return nil
}

func genC11(t *rapid.T) PairCase {
	opts := gen.Pick(t, "opts", c11OptSets)
	p := gen.Profile{NullFree: true, MaxDepth: 4}
	if gen.Chance(t, "nasty", 15) {
		p.NastyKeys = true
		p.Payload = true
	}
	var a val.V
	if gen.Chance(t, "objectRoot", 75) {
		a = gen.Object(t, p, 0)
	} else {
		a = gen.Doc(t, p)
	}
	var b val.V
	switch gen.Int(t, "mode", 0, 10) {
	case 0:
		b = gen.Doc(t, p)
	case 1:
		b = map[string]val.V{}
	case 10:
		b = gen.SwapValues(t, a, 50)
		if gen.Chance(t, "andPermute", 50) {
			b = gen.Permute(t, b, 60)
		}
	default:
		b = gen.EditN(t, a, p, 1, 5)
	}
	if gen.Chance(t, "deep", 25) {
		a, b = gen.DeepPair(t, a, b, p)
	}
	// bias: empty objects at depth on either side
	if gen.Chance(t, "emptyObjs", 25) {
		a = sprinkleEmptyObjects(t, a)
		b = sprinkleEmptyObjects(t, b)
	}
	return PairCase{A: val.JSON(a), B: val.JSON(b), Opts: opts}
}

// sprinkleNulls turns some scalar members of nested objects into null or {}.
func sprinkleNulls(t *rapid.T, v val.V) val.V {
	o, ok := v.(map[string]val.V)
	if !ok {
		return v
	}
	out := map[string]val.V{}
	for _, k := range val.Keys(o) {
		switch x := o[k].(type) {
		case map[string]val.V:
			out[k] = sprinkleNulls(t, x)
		default:
			switch r := gen.Int(t, "nullify", 0, 99); {
			case r < 20:
				out[k] = nil
			case r < 28:
				out[k] = map[string]val.V{}
			default:
				out[k] = x
			}
		}
	}
	return out
}

func sprinkleEmptyObjects(t *rapid.T, v val.V) val.V {
	switch x := v.(type) {
	case map[string]val.V:
		out := map[string]val.V{}
		for _, k := range val.Keys(x) {
			if gen.Chance(t, "toEmpty", 15) {
				out[k] = map[string]val.V{}
			} else {
				out[k] = sprinkleEmptyObjects(t, x[k])
			}
		}
		return out
	}
	return v
}

// ---------------------------------------------------------------- C12

type MergeCase struct {
	Target string `json:"target"`
	Patch  string `json:"patch"`
}

func checkC12(c MergeCase, r *rec.Rec) error {
	tv, err := val.Parse(c.Target)
	if err != nil || val.IsVoid(tv) {
		return fmt.Errorf("bad case: %v", err)
	}
	pv, err := val.Parse(c.Patch)
	if err != nil || val.IsVoid(pv) {
		return fmt.Errorf("bad case: %v", err)
	}
	viol := rec.Violated
	_, targetIsObj := tv.(map[string]val.V)
	po, patchIsObj := pv.(map[string]val.V)
	switch {
	case pv == nil:
		viol = func(f string, a ...interface{}) error { return rec.Known("D16", f, a...) }
	case patchIsObj && len(po) == 0 && !targetIsObj:
		viol = func(f string, a ...interface{}) error { return rec.Known("D17", f, a...) }
	}
	want := ref.MergePatch(tv, pv)
	var d jd.Diff
	var rerr error
	if msg, p := jdx.Guard(func() { d, rerr = jd.ReadMergeString(c.Patch) }); p {
		return viol("ReadMergeString panicked: %s", msg)
	}
	if rerr != nil {
		return viol("ReadMergeString rejects the merge patch %s: %v", c.Patch, rerr)
	}
	out := jdx.Patch(jdx.NodeText(c.Target), d)
	if !out.OK() {
		return viol("merge patch %s does not apply to %s: %s\nas read by jd:\n%s", c.Patch, c.Target, okWord(out), d.Render())
	}
	gotText := out.Node.Json()
	got, err := val.Parse(gotText)
	if err != nil {
		return viol("result of Patch is not readable JSON: %v", err)
	}
	if !val.Equal(got, want, val.List) {
		return viol("MergePatch(%s, %s) = %s but jd gives %s\nas read by jd:\n%s", c.Target, c.Patch, val.JSON(want), showText(gotText), d.Render())
	}
	cls := mergePatchClasses(pv)
	nontrivial := false
	for _, k := range cls {
		if k == "patch-has-null" || k == "patch-has-nested-{}" {
			nontrivial = true
		}
	}
	if patchIsObj && !targetIsObj {
		cls = append(cls, "object-patch-on-non-object")
		nontrivial = true
	}
	if !patchIsObj {
		cls = append(cls, "non-object-patch")
	}
	cls = append(cls, nestedEmptyClasses(tv, pv)...)
	r.Case(c.Target+"|"+c.Patch, nontrivial, cls...)
	if nontrivial {
		r.Sample(c)
	}
	return nil
}

func showText(s string) string {
	if s == "" {
		return "<the empty document>"
	}
	return s
}

// nestedEmptyClasses says over what kind of target value a nested {} or
// null of the patch lands.
func nestedEmptyClasses(target, patch val.V) []string {
	var cls []string
	var walk func(tv val.V, present bool, pv val.V, depth int)
	walk = func(tv val.V, present bool, pv val.V, depth int) {
		po, ok := pv.(map[string]val.V)
		if !ok {
			if pv == nil && depth > 0 {
				if present {
					cls = append(cls, "null-over-present-key")
				} else {
					cls = append(cls, "null-over-absent-key")
				}
			}
			return
		}
		to, tIsObj := tv.(map[string]val.V)
		if len(po) == 0 && depth > 0 {
			switch {
			case !present:
				cls = append(cls, "{}-over-absent-key")
			case tIsObj:
				cls = append(cls, "{}-over-object")
			default:
				cls = append(cls, "{}-over-non-object")
			}
		}
		for k, e := range po {
			var child val.V
			has := false
			if tIsObj {
				child, has = to[k]
			}
			walk(child, has, e, depth+1)
		}
	}
	walk(target, true, patch, 0)
	return dedupStrings(cls)
}

func genMergeDoc(t *rapid.T, target val.V) val.V {
	p := gen.Profile{MaxDepth: 3}
	switch gen.Int(t, "patchKind", 0, 9) {
	case 0:
		return gen.Doc(t, p) // independent: arrays, scalars, null at the root
	case 1:
		return gen.Scalar(t, p)
	}
	base := gen.Edit(t, target, p)
	if _, ok := base.(map[string]val.V); !ok {
		base = gen.Object(t, p, 0)
	}
	var inject func(v val.V, depth int) val.V
	inject = func(v val.V, depth int) val.V {
		o, ok := v.(map[string]val.V)
		if !ok {
			return v
		}
		out := map[string]val.V{}
		for _, k := range val.Keys(o) {
			switch r := gen.Int(t, "inject", 0, 99); {
			case r < 12:
				out[k] = nil
			case r < 24:
				out[k] = map[string]val.V{}
			default:
				out[k] = inject(o[k], depth+1)
			}
		}
		if gen.Chance(t, "newKey", 25) {
			out[gen.Pick(t, "nk", []string{"a", "b", "c", "new"})] = gen.Pick(t, "nv", []val.V{nil, map[string]val.V{}, 1.0, map[string]val.V{"x": nil}, map[string]val.V{"x": map[string]val.V{}}})
		}
		return out
	}
	return inject(base, 0)
}

func genC12(t *rapid.T) MergeCase {
	p := gen.Profile{MaxDepth: 3}
	if gen.Chance(t, "deep", 30) {
		// target and patch share a chain of up to 6 objects with siblings;
		// the patch side gets nulls and empty objects sprinkled in
		ta := gen.Object(t, p, 1)
		pa := genMergeDoc(t, ta)
		tv, pv := gen.DeepPair(t, ta, pa, p)
		pv = sprinkleNulls(t, pv)
		return MergeCase{Target: val.JSON(tv), Patch: val.JSON(pv)}
	}
	var target val.V
	if gen.Chance(t, "objectTarget", 70) {
		target = gen.Object(t, p, 0)
	} else {
		target = gen.Doc(t, p)
	}
	return MergeCase{Target: val.JSON(target), Patch: val.JSON(genMergeDoc(t, target))}
}

// grammar: v ::= 1 | null | [1] | {} | {"a":v} | {"a":v,"b":v} (thorough adds "s")
func c12grammar(depth int, leaves []val.V) []val.V {
	if depth == 0 {
		return leaves
	}
	sub := c12grammar(depth-1, leaves)
	out := append([]val.V{}, leaves...)
	for _, x := range sub {
		out = append(out, map[string]val.V{"a": x})
	}
	for _, x := range sub {
		for _, y := range sub {
			out = append(out, map[string]val.V{"a": x, "b": y})
		}
	}
	// de-duplicate
	seen := map[string]bool{}
	var uniq []val.V
	for _, v := range out {
		c := val.JSON(v)
		if !seen[c] {
			seen[c] = true
			uniq = append(uniq, v)
		}
	}
	return uniq
}

func TestC12Exhaustive(t *testing.T) {
	leaves := []val.V{1.0, nil, []val.V{1.0}, map[string]val.V{}}
	if thorough() {
		leaves = append(leaves, "s")
	}
	vals := c12grammar(2, leaves)
	e := NewEnum(t, "C12", "exhaustive", checkC12)
	defer e.Done()
	e.r.Notes["values"] = len(vals)
	for _, tv := range vals {
		if !e.Mine() {
			continue
		}
		tt := val.JSON(tv)
		for _, pv := range vals {
			e.Do(MergeCase{Target: tt, Patch: val.JSON(pv)})
		}
	}
}

func init() {
	Register("C11", "random", checkC11)
	Register("C12", "random", checkC12)
	Register("C12", "exhaustive", checkC12)
}

func TestC11Random(t *testing.T) { RunRandom(t, "C11", "random", genC11, checkC11) }
func TestC12Random(t *testing.T) { RunRandom(t, "C12", "random", genC12, checkC12) }
