package props

import (
	"fmt"
	"runtime"
	"strings"
	"testing"

	jd "github.com/josephburnett/jd/v2"
	"pgregory.net/rapid"

	"verifjd/gen"
	"verifjd/jdx"
	"verifjd/rec"
	"verifjd/ref"
	"verifjd/val"
)

// C13 — malformed or mismatched input yields an error, never a crash.

// specText renders hunks in the native format without going through jd
// (paths and values are raw JSON texts, so fractional or huge indices and
// any other damage can be written down).
func specText(hs []HunkSpec) string {
	var b strings.Builder
	for _, h := range hs {
		if h.Merge {
			b.WriteString("^ {\"Merge\":true}\n")
		}
		b.WriteString("@ " + h.Path + "\n")
		for _, v := range h.Before {
			if v == "" {
				b.WriteString("[\n")
			} else {
				b.WriteString("  " + v + "\n")
			}
		}
		for _, v := range h.Remove {
			b.WriteString("- " + v + "\n")
		}
		for _, v := range h.Add {
			if v == "" {
				b.WriteString("+\n")
			} else {
				b.WriteString("+ " + v + "\n")
			}
		}
		for _, v := range h.After {
			if v == "" {
				b.WriteString("]\n")
			} else {
				b.WriteString("  " + v + "\n")
			}
		}
	}
	return b.String()
}

// exerciseDiff applies a diff to a target and renders everything, guarding
// every call. It returns a description of the first crash, and whether the
// diff applied.
func exerciseDiff(d jd.Diff, target string) (crash string, applied bool) {
	if msg, p := jdx.Guard(func() { _ = d.Render() }); p {
		return "Render panicked: " + msg, false
	}
	if msg, p := jdx.Guard(func() { _ = d.Render(jd.COLOR) }); p {
		return "Render(COLOR) panicked: " + msg, false
	}
	out := jdx.Patch(jdx.NodeText(target), d)
	if out.Panicked {
		return "Patch panicked: " + out.PanicMsg, false
	}
	if out.Err == nil {
		if out.Node == nil {
			return "Patch returned neither a document nor an error", false
		}
		applied = true
		if msg, p := jdx.Guard(func() { _ = out.Node.Json() }); p {
			return "the patched document cannot be rendered as JSON: " + msg, applied
		}
		if msg, p := jdx.Guard(func() { _ = out.Node.Yaml() }); p {
			return "the patched document cannot be rendered as YAML: " + msg, applied
		}
		if msg, p := jdx.Guard(func() { _ = out.Node.Equals(out.Node) }); p {
			return "Equals panicked on the patched document: " + msg, applied
		}
	}
	if msg, p := jdx.Guard(func() { _, _ = d.RenderPatch() }); p {
		return "RenderPatch panicked: " + msg, applied
	}
	if msg, p := jdx.Guard(func() { _, _ = d.RenderMerge() }); p {
		return "RenderMerge panicked: " + msg, applied
	}
	return "", applied
}

// StructCase: damaged but structurally valid diffs against a target.
type StructCase struct {
	Target string     `json:"target"`
	Via    string     `json:"via"` // elements | text
	Hunks  []HunkSpec `json:"hunks"`
	Damage string     `json:"damage"`
}

func checkC13Struct(c StructCase, r *rec.Rec) error {
	if _, err := val.Parse(c.Target); err != nil {
		return fmt.Errorf("bad case: %v", err)
	}
	cls := []string{"via=" + c.Via, "damage=" + c.Damage}
	var d jd.Diff
	switch c.Via {
	case "elements":
		hs, err := specsToHunks(c.Hunks)
		if err != nil {
			return fmt.Errorf("bad case: %v", err)
		}
		if msg, p := jdx.Guard(func() { d = jdx.FromHunks(hs) }); p {
			return fmt.Errorf("bad case: cannot build elements: %s", msg)
		}
	case "text":
		text := specText(c.Hunks)
		var err error
		if msg, p := jdx.Guard(func() { d, err = jd.ReadDiffString(text) }); p {
			return rec.Violated("ReadDiffString panicked: %s\ntext:\n%s", msg, text)
		}
		if err != nil {
			r.Case(text+"|"+c.Target, false, append(cls, "reader-rejects")...)
			return nil
		}
	default:
		return fmt.Errorf("bad case: via %q", c.Via)
	}
	crash, applied := exerciseDiff(d, c.Target)
	if crash != "" {
		return rec.Violated("%s\ntarget: %s\ndiff:\n%s", crash, c.Target, specText(c.Hunks))
	}
	if applied {
		cls = append(cls, "applied")
	} else {
		cls = append(cls, "patch-rejects")
	}
	r.Case(specText(c.Hunks)+"|"+c.Target+"|"+c.Via, true, cls...)
	r.Sample(c)
	return nil
}

// allPaths lists the key/index paths of every node of v (as JSON path
// element texts).
func allPaths(v val.V) [][]string {
	var out [][]string
	var walk func(v val.V, p []string)
	walk = func(v val.V, p []string) {
		out = append(out, append([]string{}, p...))
		switch x := v.(type) {
		case []val.V:
			for i, e := range x {
				walk(e, append(p, fmt.Sprint(i)))
			}
		case map[string]val.V:
			for _, k := range val.Keys(x) {
				walk(x[k], append(p, val.JSON(k)))
			}
		}
	}
	walk(v, nil)
	return out
}

func nodeAtTextPath(v val.V, p []string) val.V {
	cur := v
	for _, e := range p {
		switch x := cur.(type) {
		case []val.V:
			var i int
			fmt.Sscanf(e, "%d", &i)
			if i < 0 || i >= len(x) {
				return nil
			}
			cur = x[i]
		case map[string]val.V:
			k, _ := val.Parse(e)
			cur = x[k.(string)]
		}
	}
	return cur
}

var badIndices = []string{"-1", "-2", "-7", "1.5", "0.5", "-0.5", "1e30", "-1e30", "9223372036854775807", "-9223372036854775808", "4294967296", "1e3", "99"}

// keyedCopiesCase: a keyed hunk on a target whose array holds several members
// with the addressed key value (copies or look-alikes), where the rest of the
// hunk fits some of them, all of them or none; then a second hunk on the
// same array.
func keyedCopiesCase(t *rapid.T) StructCase {
	member := func() val.V {
		m := map[string]val.V{"id": 1.0, "v": gen.Pick(t, "memberV", []val.V{1.0, 2.0, "x", []val.V{1.0}, map[string]val.V{"w": 1.0}})}
		if gen.Chance(t, "memberExtra", 30) {
			m["l"] = []val.V{1.0, 2.0}
		}
		return m
	}
	var arr []val.V
	for i := gen.Int(t, "nMembers", 2, 3); i > 0; i-- {
		arr = append(arr, member())
	}
	if gen.Chance(t, "otherMember", 50) {
		arr = append(arr, map[string]val.V{"id": 2.0, "v": 1.0})
	}
	var target val.V = arr
	prefix := ""
	if gen.Chance(t, "underKey", 50) {
		target, prefix = map[string]val.V{"s": arr}, `"s",`
	}
	rest := gen.Pick(t, "keyedRest", []string{`"v"`, `"v"`, `"l",0`, `"l",5`, `"v","w"`, `"v",0`, `"zz"`, `"l",{}`})
	h1 := HunkSpec{Path: "[" + prefix + `{"id":1},` + rest + "]"}
	if gen.Chance(t, "withRemove", 70) {
		h1.Remove = []string{val.JSON(gen.Pick(t, "oldV", []val.V{1.0, 2.0, "x", []val.V{1.0}, map[string]val.V{"w": 1.0}}))}
	}
	if gen.Chance(t, "withAdd", 70) || len(h1.Remove) == 0 {
		h1.Add = []string{val.JSON(freshScalar(t))}
	}
	c := StructCase{Target: val.JSON(target), Via: gen.Pick(t, "via", []string{"text", "elements"}), Damage: "keyed-copies"}
	c.Hunks = append(c.Hunks, h1)
	if gen.Chance(t, "secondHunk", 60) {
		h2 := HunkSpec{Path: "[" + prefix + gen.Pick(t, "secondPath", []string{`{}`, `1,"v"`, `{"id":1},"v"`, `0`}) + "]"}
		h2.Add = []string{val.JSON(freshScalar(t))}
		if gen.Chance(t, "secondRemove", 40) {
			h2.Remove = []string{val.JSON(member())}
		}
		c.Hunks = append(c.Hunks, h2)
	}
	return c
}

func genC13Struct(t *rapid.T) StructCase {
	if gen.Chance(t, "keyedCopies", 6) {
		return keyedCopiesCase(t)
	}
	target := gen.Doc(t, gen.Profile{ArrayBias: 55, MaxArr: 5})
	c := StructCase{Target: val.JSON(target)}
	c.Via = gen.Pick(t, "via", []string{"text", "text", "elements"})
	paths := allPaths(target)
	n := gen.Int(t, "nHunks", 1, 2)
	var damages []string
	for i := 0; i < n; i++ {
		p := append([]string{}, gen.Pick(t, "path", paths)...)
		node := nodeAtTextPath(target, p)
		h := HunkSpec{}
		// a plausible hunk at that path
		if !val.IsVoid(node) && gen.Chance(t, "removeRight", 60) {
			h.Remove = []string{val.JSON(node)}
		} else if gen.Chance(t, "removeWrong", 50) {
			h.Remove = []string{val.JSON(freshScalar(t))}
		}
		if gen.Chance(t, "add", 70) || len(h.Remove) == 0 {
			h.Add = []string{val.JSON(freshScalar(t))}
		}
		ctx := func(label string) []string {
			switch gen.Int(t, label, 0, 5) {
			case 0:
				return nil
			case 1:
				return []string{""}
			case 2:
				return []string{val.JSON(freshScalar(t))}
			case 3:
				return []string{val.JSON(freshScalar(t)), val.JSON(freshScalar(t)), val.JSON(freshScalar(t))}
			case 4:
				return []string{"", ""}
			default:
				return []string{val.JSON(freshScalar(t)), ""}
			}
		}
		if len(p) > 0 && !strings.HasPrefix(p[len(p)-1], "\"") {
			h.Before, h.After = ctx("before"), ctx("after")
		}
		damage := gen.Pick(t, "damage", []string{"none", "bad-index", "bad-index", "bad-index-inner", "key-for-index", "index-for-key", "set-on-any", "mset-on-any", "keyed-on-any", "multi-on-object", "long-context", "append", "extend-path", "merge-flag", "void-values"})
		if c.Via == "elements" && (damage == "void-values") {
			damage = "none"
		}
		switch damage {
		case "bad-index":
			idx := gen.Pick(t, "badIndex", badIndices)
			if c.Via == "elements" {
				idx = gen.Pick(t, "badIntIndex", []string{"-1", "-2", "-7", "99", "4294967296", "9223372036854775807", "-9223372036854775808"})
			}
			if len(p) > 0 {
				p[len(p)-1] = idx
			} else {
				p = append(p, idx)
			}
			h.Before, h.After = ctx("before"), ctx("after")
		case "bad-index-inner":
			idx := gen.Pick(t, "badIndex", badIndices)
			if c.Via == "elements" {
				idx = gen.Pick(t, "badIntIndex", []string{"-1", "-2", "99", "-9223372036854775808"})
			}
			if len(p) >= 2 {
				p[gen.Int(t, "innerAt", 0, len(p)-2)] = idx
			} else {
				p = append([]string{idx}, p...)
			}
		case "key-for-index":
			if len(p) > 0 {
				p[gen.Int(t, "at", 0, len(p)-1)] = `"k"`
			} else {
				p = append(p, `"k"`)
			}
		case "index-for-key":
			if len(p) > 0 {
				p[gen.Int(t, "at", 0, len(p)-1)] = fmt.Sprint(gen.Int(t, "idx", 0, 3))
			} else {
				p = append(p, "0")
			}
		case "set-on-any":
			p = append(p, "{}")
			h.Remove = append(h.Remove, val.JSON(freshScalar(t)))
		case "mset-on-any":
			p = append(p, "[]")
			h.Add = append(h.Add, val.JSON(freshScalar(t)))
		case "keyed-on-any":
			p = append(p, gen.Pick(t, "keyed", []string{`{"id":1}`, `{"id":[1]}`, `{"a":0}`, `[{"id":1}]`}))
			if gen.Chance(t, "keyedRest", 70) {
				p = append(p, gen.Pick(t, "rest", []string{`"x"`, "0", "-1", "{}"}))
			}
		case "multi-on-object":
			h.Remove = append(h.Remove, val.JSON(freshScalar(t)), val.JSON(freshScalar(t)))
			h.Add = append(h.Add, val.JSON(freshScalar(t)), val.JSON(freshScalar(t)))
		case "long-context":
			for k := 0; k < 6; k++ {
				h.Before = append(h.Before, val.JSON(freshScalar(t)))
				h.After = append(h.After, val.JSON(freshScalar(t)))
			}
			if len(p) == 0 || strings.HasPrefix(p[len(p)-1], "\"") {
				p = append(p, fmt.Sprint(gen.Int(t, "idx", 0, 3)))
			}
		case "append":
			if len(p) > 0 && !strings.HasPrefix(p[len(p)-1], "\"") {
				p[len(p)-1] = "-1"
			} else {
				p = append(p, "-1")
			}
		case "extend-path":
			p = append(p, gen.Pick(t, "ext", []string{`"zz"`, "0", "5"}), gen.Pick(t, "ext2", []string{`"zz"`, "0", "-3"}))
		case "merge-flag":
			h.Merge = true
		case "void-values":
			h.Remove = append(h.Remove, "")
			h.Add = append([]string{""}, h.Add...)
		}
		h.Path = "[" + strings.Join(p, ",") + "]"
		c.Hunks = append(c.Hunks, h)
		damages = append(damages, damage)
	}
	c.Damage = strings.Join(damages, "+")
	return c
}

// ---- JSON Patch and merge patch documents with damaged pointers / shapes

type TextCase struct {
	Kind   string `json:"kind"` // diff | patch | merge | json | yaml
	Text   string `json:"text"`
	Target string `json:"target"`
}

// checkC13Text: any text through the reader of its kind, then (if read)
// through Patch on the target and all renderers.
func checkC13Text(c TextCase, r *rec.Rec) error {
	if _, err := val.Parse(c.Target); err != nil {
		return fmt.Errorf("bad case: %v", err)
	}
	cls := []string{"kind=" + c.Kind}
	var d jd.Diff
	var err error
	var node jd.JsonNode
	msg, panicked := jdx.Guard(func() {
		switch c.Kind {
		case "diff":
			d, err = jd.ReadDiffString(c.Text)
		case "patch":
			d, err = jd.ReadPatchString(c.Text)
		case "merge":
			d, err = jd.ReadMergeString(c.Text)
		case "json":
			node, err = jd.ReadJsonString(c.Text)
		case "yaml":
			node, err = jd.ReadYamlString(c.Text)
		default:
			err = fmt.Errorf("bad case kind")
		}
	})
	if panicked {
		return rec.Violated("reading %q as %s panicked: %s", c.Text, c.Kind, msg)
	}
	if err != nil {
		r.Case(c.Kind+"|"+c.Text, false, append(cls, "reader-rejects")...)
		return nil
	}
	if c.Kind == "json" || c.Kind == "yaml" {
		if node == nil {
			return rec.Violated("reading %q as %s returned neither a document nor an error", c.Text, c.Kind)
		}
		var crash string
		if msg, p := jdx.Guard(func() {
			_ = node.Json()
			_ = node.Yaml()
			other := jdx.NodeText(c.Target)
			dd := node.Diff(other)
			_ = dd.Render()
			_ = node.Diff(other, jd.SET).Render()
			_ = node.Diff(other, jd.MULTISET).Render()
			_ = node.Diff(other, jd.MERGE).Render()
			_ = node.Equals(other)
		}); p {
			crash = msg
		}
		if crash != "" {
			return rec.Violated("a document read from %q (%s) crashes the library: %s", c.Text, c.Kind, crash)
		}
		r.Case(c.Kind+"|"+c.Text, true, append(cls, "document-read")...)
		r.Sample(c)
		return nil
	}
	crash, applied := exerciseDiff(d, c.Target)
	if crash != "" {
		return rec.Violated("%s\ntarget: %s\n%s text: %q", crash, c.Target, c.Kind, c.Text)
	}
	if applied {
		cls = append(cls, "applied")
	} else {
		cls = append(cls, "patch-rejects")
	}
	r.Case(c.Kind+"|"+c.Text+"|"+c.Target, true, cls...)
	r.Sample(c)
	return nil
}

var hostilePointers = []string{"", "/", "//", "/-", "/-1", "/-2", "/01", "/1e3", "/1.5", "/~", "/~2", "/~01", "a", "/a/-/b", "/0/-", "/-/0", "/9223372036854775807", "/18446744073709551616", "/999999999999999999999", "/ ", "/a b", "/\u00e9", "/0/0/0/0"}

func genC13Patch(t *rapid.T) TextCase {
	if gen.Chance(t, "fromRendered", 50) {
		// jd's own rendering of a real diff with a few ops damaged: most of
		// the document stays inside the subset the reader accepts
		a := gen.Doc(t, gen.Profile{ArrayBias: 60, MaxArr: 6})
		b := gen.EditN(t, a, gen.Profile{ArrayBias: 60, MaxArr: 6}, 1, 3)
		var ptext string
		jdx.Guard(func() { ptext, _ = jdx.Node(a).Diff(jdx.Node(b)).RenderPatch() })
		pv, err := val.Parse(ptext)
		ops, ok := pv.([]val.V)
		if err == nil && ok && len(ops) > 0 {
			for k := gen.Int(t, "nDamage", 0, 2); k > 0; k-- {
				op, _ := ops[gen.Int(t, "which", 0, len(ops)-1)].(map[string]val.V)
				if op == nil {
					continue
				}
				switch gen.Int(t, "opDamage", 0, 5) {
				case 0:
					op["path"] = gen.Pick(t, "hp", hostilePointers)
				case 1:
					ps, _ := op["path"].(string)
					op["path"] = ps + gen.Pick(t, "suffix", []string{"/-", "/0", "/-1", "/99", "/x", "/", "/1e3"})
				case 2:
					ps, _ := op["path"].(string)
					prefix, _ := lastToken(ps)
					op["path"] = prefix + "/" + gen.Pick(t, "badIdx", []string{"-1", "-2", "99", "4294967296", "01", "-", "1.5"})
				case 3:
					op["value"] = freshScalar(t)
				case 4:
					delete(op, "value")
				default:
					op["op"] = gen.Pick(t, "opName", []string{"add", "remove", "test", "replace"})
				}
			}
			target := a
			if gen.Chance(t, "otherTarget", 40) {
				target = gen.Edit(t, a, gen.Profile{ArrayBias: 60})
			}
			return TextCase{Kind: "patch", Text: val.JSON(ops), Target: val.JSON(target)}
		}
	}
	target := gen.Doc(t, gen.Profile{ArrayBias: 55, MaxArr: 5})
	paths := allPaths(target)
	ptr := func() string {
		if gen.Chance(t, "hostilePtr", 35) {
			return gen.Pick(t, "hp", hostilePointers)
		}
		p := gen.Pick(t, "path", paths)
		var b strings.Builder
		for _, e := range p {
			b.WriteString("/")
			if strings.HasPrefix(e, "\"") {
				k, _ := val.Parse(e)
				s := strings.ReplaceAll(strings.ReplaceAll(k.(string), "~", "~0"), "/", "~1")
				b.WriteString(s)
			} else {
				b.WriteString(e)
			}
		}
		s := b.String()
		if gen.Chance(t, "tweakPtr", 30) {
			s += gen.Pick(t, "suffix", []string{"/-", "/0", "/-1", "/99", "/x", "/"})
		}
		return s
	}
	n := gen.Int(t, "nOps", 1, 5)
	var ops []val.V
	for i := 0; i < n; i++ {
		op := map[string]val.V{}
		name := gen.Pick(t, "op", []string{"test", "remove", "add", "add", "test", "replace", "move", "copy", "bogus"})
		op["op"] = name
		op["path"] = ptr()
		if gen.Chance(t, "value", 85) {
			op["value"] = freshScalar(t)
		}
		if name == "move" || name == "copy" {
			op["from"] = ptr()
		}
		switch gen.Int(t, "shape", 0, 14) {
		case 0:
			delete(op, "path")
		case 1:
			op["path"] = 5.0
		case 2:
			op["op"] = nil
		}
		ops = append(ops, op)
		if name == "test" && gen.Chance(t, "pair", 60) {
			rm := map[string]val.V{"op": "remove", "path": op["path"]}
			if v, ok := op["value"]; ok && gen.Chance(t, "sameValue", 80) {
				rm["value"] = v
			}
			ops = append(ops, rm)
		}
	}
	var doc val.V = ops
	if gen.Chance(t, "notArray", 5) {
		doc = gen.Pick(t, "notArr", []val.V{map[string]val.V{}, nil, 1.0, "x", []val.V{1.0}, []val.V{nil}, []val.V{[]val.V{}}})
	}
	return TextCase{Kind: "patch", Text: val.JSON(doc), Target: val.JSON(target)}
}

func genC13Merge(t *rapid.T) TextCase {
	target := gen.Doc(t, gen.Profile{VoidRoot: true})
	var patch val.V
	if gen.Chance(t, "related", 60) && !val.IsVoid(target) {
		patch = genMergeDoc(t, target)
	} else {
		patch = gen.Doc(t, gen.Profile{NastyKeys: true, Payload: true, Floats: true})
	}
	return TextCase{Kind: "merge", Text: val.JSON(patch), Target: val.JSON(target)}
}

// ---- byte level: mutations of valid texts and hostile constants

var hostileTexts = []string{
	"^ {\"Version\":\"2\"}\n@ []\n+ 1\n", "^ {\"Version\":null}\n@ []\n+ 1\n", "^ {\"Version\":[2]}\n@ []\n+ 1\n", "^ {\"Version\":2}\n@ []\n+ 1\n", "^ {\"Merge\":\"yes\"}\n@ []\n+ 1\n", "^ {\"Merge\":null}\n@ []\n+ 1\n",
	"^ {\"Merge\":[true]}\n@ []\n+ 1\n", "^ {\"setkeys\":\"id\"}\n@ []\n+ 1\n", "^ {\"setkeys\":[1]}\n@ []\n+ 1\n", "^ {\"SetKeys\":[\"id\"]}\n@ []\n+ 1\n", "^ {\"Set\":true}\n@ []\n+ 1\n", "^ {\"Set\":1,\"MultiSet\":\"x\"}\n@ []\n+ 1\n",
	"^ {\"Color\":1}\n@ []\n+ 1\n", "^ {\"Precision\":\"0.1\"}\n@ []\n+ 1\n", "^ {\"Precision\":null}\n@ []\n+ 1\n", "^ [\"Merge\"]\n@ []\n+ 1\n", "^ \"Merge\"\n@ []\n+ 1\n", "^ 1\n@ []\n+ 1\n", "^ null\n@ []\n+ 1\n",
	"", " ", "\n", "@", "@ ", "@ [", "@ []", "@ []\n", "@ [0]\n", "@ [0]\n[\n", "@ [0]\n]\n", "@ [0]\n- 1\n]\n]\n", "^", "^ {}", "^ {\"Merge\":true}", "^ {\"Merge\":1}\n@ []\n+ 1\n",
	"^ {\"Merge\":true}\n^ {\"Merge\":false}\n@ [\"a\"]\n+ 1\n", "@ [-1]\n+ 1\n", "@ [-2]\n+ 1\n", "@ [1e30]\n- 1\n", "@ [0.5]\n+ 1\n", "@ [{}]\n- 1\n", "@ [[]]\n+ 1\n", "@ [[1]]\n+ 1\n",
	"@ [[{\"a\":1}]]\n+ 1\n", "@ [[{\"a\":1}],\"b\"]\n+ 1\n", "@ [{\"a\":1}]\n+ 1\n", "@ [null]\n+ 1\n", "@ [true]\n+ 1\n", "@ \"a\"\n+ 1\n", "@ {}\n+ 1\n", "@ [0,0,0,0,0,0,0,0,0,0,0,0,0,0,0,0,0]\n+ 1\n",
	"@ [\"a\"]\n- 1\n- 2\n", "@ [\"a\"]\n+ 1\n+ 2\n", "@ []\n-\n+\n", "@ []\n- \n", "+ 1\n", "- 1\n", "[\n", "]\n", "  1\n", "@ [0]\n  1\n  2\n  3\n+ 4\n  5\n  6\n", "@ [0]\n[\n[\n+ 1\n",
	"@ [0]\n+ 1\n]\n  2\n", "@ [0]\r\n+ 1\r\n", "@ [0]\n+ 1", "@ [0]\n+1\n", "@[0]\n+ 1\n", "@ [0]\n+ {\n", "@ [0]\n+ \"\\ud800\"\n", "@ [\"\\u0000\"]\n+ 1\n", "\x00", "\xff\xfe", "@ [0]\n+ \xff\n",
	"[]", "{}", "null", "[{}]", "[null]", "[[]]", "[1]", "[{\"op\":\"add\"}]", "[{\"op\":\"add\",\"path\":\"/-\"}]", "[{\"op\":\"test\",\"path\":\"\"}]", "[{\"op\":\"test\",\"path\":\"/0\",\"value\":1}]",
	"[{\"op\":\"test\",\"path\":\"/0\",\"value\":1},{\"op\":\"test\",\"path\":\"/1\",\"value\":1}]", "[{\"op\":\"test\",\"path\":\"/0\",\"value\":1},{\"op\":\"test\",\"path\":\"/1\",\"value\":1},{\"op\":\"test\",\"path\":\"\",\"value\":1}]",
	"[{\"op\":\"test\",\"path\":\"/0\",\"value\":1},{\"op\":\"test\",\"path\":\"/1\",\"value\":1},{\"op\":\"add\",\"path\":\"/a\",\"value\":1}]", "[{\"op\":\"remove\",\"path\":\"/0\"}]", "[{\"op\":\"add\",\"path\":\"/0\",\"value\":{\"a\":[1,{}]}}]",
	"{\"a\":null}", "{\"a\":{\"b\":null}}", "{\"\":{}}", "- a\n- b", "a: b", "a: [", "? a", "&a [*a]", "<<: 1", "<<: {a: 1}\nb: 2", "1: 2", "true: 1", "? [a]\n: b", "{a: 1}: b", "!!binary aGk=", "!!set {a, b}",
	"2001-12-14", "0x1F", "1_000", "- !!timestamp 2001-12-14", "a: !!float 1", "---\na\n---\nb", "\t", "%YAML 1.1\n---\na", "a: &x {b: 1}\nc: *x", "18446744073709551615", "-9223372036854775809", ".inf", ".nan", "-.inf", "+.inf", "-.Inf", "-.INF", "!!float -.inf", "[.inf, -.inf]", "a: -.inf", "- -.inf\n- .NaN", "a: {b: [-.inf]}",
}

func mutateText(t *rapid.T, s string) string {
	n := gen.Int(t, "nMut", 1, 3)
	for i := 0; i < n; i++ {
		b := []byte(s)
		switch gen.Int(t, "mut", 0, 8) {
		case 0: // delete a byte
			if len(b) > 0 {
				k := gen.Int(t, "at", 0, len(b)-1)
				b = append(b[:k:k], b[k+1:]...)
			}
		case 1: // insert a structural byte
			k := gen.Int(t, "at", 0, len(b))
			ch := gen.Pick(t, "ch", []byte("@^+-[] \n{}\",:0123456789e.\\\x00\xff~/"))
			b = append(b[:k:k], append([]byte{ch}, b[k:]...)...)
		case 2: // replace a byte
			if len(b) > 0 {
				k := gen.Int(t, "at", 0, len(b)-1)
				b[k] = gen.Pick(t, "ch", []byte("@^+-[] \n{}\",:0123456789e.\\\x00\xff~/"))
			}
		case 3: // truncate
			if len(b) > 0 {
				b = b[:gen.Int(t, "at", 0, len(b)-1)]
			}
		case 4: // duplicate a line
			lines := strings.Split(string(b), "\n")
			k := gen.Int(t, "line", 0, len(lines)-1)
			lines = append(lines[:k+1:k+1], append([]string{lines[k]}, lines[k+1:]...)...)
			b = []byte(strings.Join(lines, "\n"))
		case 5: // delete a line
			lines := strings.Split(string(b), "\n")
			k := gen.Int(t, "line", 0, len(lines)-1)
			lines = append(lines[:k:k], lines[k+1:]...)
			b = []byte(strings.Join(lines, "\n"))
		case 6: // swap two lines
			lines := strings.Split(string(b), "\n")
			if len(lines) >= 2 {
				k := gen.Int(t, "line", 0, len(lines)-2)
				lines[k], lines[k+1] = lines[k+1], lines[k]
			}
			b = []byte(strings.Join(lines, "\n"))
		case 7: // replace a number by a hostile one
			s2 := string(b)
			for _, d := range []string{"0", "1", "2", "3"} {
				if k := strings.Index(s2, d); k >= 0 {
					s2 = s2[:k] + gen.Pick(t, "num", badIndices) + s2[k+1:]
					break
				}
			}
			b = []byte(s2)
		default: // splice in a hostile text
			b = append(b, []byte("\n"+gen.Pick(t, "hostile", hostileTexts))...)
		}
		s = string(b)
	}
	return s
}

func genC13Bytes(t *rapid.T) TextCase {
	kind := gen.Pick(t, "kind", []string{"diff", "diff", "patch", "merge", "json", "yaml"})
	target := gen.Doc(t, gen.Profile{ArrayBias: 50, VoidRoot: true})
	var seed string
	if gen.Chance(t, "hostileSeed", 35) {
		seed = gen.Pick(t, "hostile", hostileTexts)
	} else {
		a := gen.Doc(t, gen.Profile{ArrayBias: 50})
		b := gen.Edit(t, a, gen.Profile{ArrayBias: 50})
		switch kind {
		case "diff":
			opts := gen.Pick(t, "opts", []string{"list", "set", "mset", "merge", "setkeys:id"})
			jdx.Guard(func() { seed = jdx.Node(a).Diff(jdx.Node(b), jdx.Options(opts)...).Render() })
			if gen.Chance(t, "targetIsA", 70) {
				target = a
			}
		case "patch":
			jdx.Guard(func() { seed, _ = jdx.Node(a).Diff(jdx.Node(b)).RenderPatch() })
			if gen.Chance(t, "targetIsA", 70) {
				target = a
			}
		case "merge":
			seed = val.JSON(genMergeDoc(t, a))
		case "json":
			seed = val.JSON(b)
		default:
			seed = ref.YAMLEmit(b)
			if gen.Chance(t, "jdYaml", 50) {
				jdx.Guard(func() { seed = jdx.Node(b).Yaml() })
			}
		}
	}
	text := seed
	if gen.Chance(t, "mutate", 85) {
		text = mutateText(t, seed)
	}
	return TextCase{Kind: kind, Text: text, Target: val.JSON(target)}
}

// ---- process level

type CLICrashCase struct {
	Bin   string   `json:"bin"`
	Args  []string `json:"args"`  // flags and file names f1, f2
	F1    string   `json:"f1"`    // content of file f1
	F2    *string  `json:"f2"`    // content of file f2 (nil: not given)
	Stdin *string  `json:"stdin"` // content of stdin (nil: empty)
	// DeepPath > 0: f1 is a native diff with one merge hunk whose path has
	// that many keys (written out here, not stored in the case).
	DeepPath int `json:"deep_path,omitempty"`
	// ArgList: the argument list itself is malformed (no file, three files,
	// an unknown flag). Both binaries answer with their usage text, so only
	// the status and the absence of a Go stack trace are judged.
	ArgList bool `json:"arg_list,omitempty"`
}

func deepPathDiff(n int) string {
	var b strings.Builder
	b.WriteString("^ {\"Merge\":true}\n@ [")
	for i := 0; i < n; i++ {
		if i > 0 {
			b.WriteByte(',')
		}
		b.WriteString(`"a"`)
	}
	b.WriteString("]\n+ 1\n")
	return b.String()
}

func checkC13CLI(c CLICrashCase, r *rec.Rec) error {
	if !haveCLI() {
		return inconclusive{"jd binaries not built"}
	}
	dir, cleanup := caseDir()
	defer cleanup()
	viol := rec.Violated
	if c.DeepPath > 0 {
		c.F1 = deepPathDiff(c.DeepPath)
	}
	writeFile(dir, "f1", c.F1)
	if c.F2 != nil {
		writeFile(dir, "f2", *c.F2)
	}
	res := runCLI(c.Bin, c.Args, c.Stdin, dir)
	if err := cliTrouble(res); err != nil {
		return err
	}
	f1Shown := fmt.Sprintf("%q", c.F1)
	if c.DeepPath > 0 {
		f1Shown = fmt.Sprintf("<one merge hunk, path of %d keys>", c.DeepPath)
		if c.DeepPath >= 500000 && strings.Contains(res.Stderr, "stack overflow") {
			// D40: the merge patch of a non-object recurses once per path element
			viol = func(f string, a ...interface{}) error { return rec.Known("D40", f, a...) }
		}
	}
	desc := fmt.Sprintf("%s %s (f1=%s f2=%v stdin=%v)", c.Bin, strings.Join(c.Args, " "), f1Shown, strPtr(c.F2), strPtr(c.Stdin))
	if strings.Contains(res.Stderr, "panic:") || strings.Contains(res.Stderr, "goroutine ") || strings.Contains(res.Stderr, "runtime error") || strings.Contains(res.Stderr, "fatal error") {
		return viol("%s crashes with a Go stack trace (status %d):\n%s", desc, res.Status, firstLines(res.Stderr, 12))
	}
	if res.Status != 0 && res.Status != 1 && res.Status != 2 {
		return rec.Violated("%s exits with status %d\nstderr:\n%s", desc, res.Status, firstLines(res.Stderr, 12))
	}
	cls := []string{"bin=" + c.Bin, fmt.Sprintf("status=%d", res.Status)}
	if c.ArgList {
		if res.Status != 2 {
			return rec.Violated("%s: malformed argument list, exits %d instead of 2\nstderr:\n%s", desc, res.Status, firstLines(res.Stderr, 12))
		}
		r.Case(desc, true, append(cls, "malformed-argument-list")...)
		return nil
	}
	if res.Status == 2 {
		if res.Stdout != "" {
			return rec.Violated("%s exits 2 but prints to stdout:\n%s", desc, firstLines(res.Stdout, 12))
		}
		lines := strings.Split(strings.TrimRight(res.Stderr, "\n"), "\n")
		if strings.TrimSpace(res.Stderr) == "" {
			return rec.Violated("%s exits 2 without a message", desc)
		}
		if len(lines) != 1 {
			// An error message may quote input that contains line breaks; the
			// message is still a single log entry. Accept if every further
			// line could be part of quoted input (no stack-trace markers,
			// checked above); count it.
			cls = append(cls, "multi-line-message")
		}
	}
	r.Case(desc, res.Status == 2, cls...)
	if res.Status == 2 {
		r.Sample(c)
	}
	return nil
}

func strPtr(s *string) string {
	if s == nil {
		return "<none>"
	}
	return fmt.Sprintf("%q", *s)
}

func firstLines(s string, n int) string {
	lines := strings.Split(s, "\n")
	if len(lines) > n {
		lines = append(lines[:n], "...")
	}
	return strings.Join(lines, "\n")
}

func genC13CLI(t *rapid.T) CLICrashCase {
	c := CLICrashCase{Bin: gen.Pick(t, "bin", []string{"jd-v2", "jd-top"})}
	v1 := false // the v1 library (-v2=false) is outside this property's anchors
	mode := gen.Pick(t, "mode", []string{"diff", "patch", "patch", "translate", "translate"})
	yaml := gen.Chance(t, "yaml", 20)
	doc := func() string {
		tc := genC13Bytes(t)
		if tc.Kind == "json" || tc.Kind == "yaml" {
			return tc.Text
		}
		return tc.Target
	}
	var flags []string
	if v1 {
		flags = append(flags, "-v2=false")
	}
	if yaml {
		flags = append(flags, "-yaml")
	}
	switch gen.Int(t, "reading", 0, 5) {
	case 0:
		flags = append(flags, "-set")
	case 1:
		flags = append(flags, "-mset")
	case 2:
		flags = append(flags, "-setkeys=id")
	}
	if gen.Chance(t, "outFlag", 25) {
		// an output file that can or cannot be written
		flags = append(flags, "-o="+gen.Pick(t, "outPath", []string{"out.txt", "no/such/dir/out.txt", ".", "f1/out.txt", ""}))
	}
	if gen.Chance(t, "deepPath", 1) {
		// a merge hunk whose path has tens of thousands of keys
		doc := gen.Pick(t, "deepTarget", []string{`{}`, `{"a":{"a":1}}`, `[1]`, `"s"`})
		c.DeepPath = gen.Pick(t, "deepLen", []int{800, 3000, 8000})
		c.F2 = &doc
		c.Args = append(flags, "-p", "f1", "f2")
		return c
	}
	if gen.Chance(t, "argList", 4) {
		c.ArgList = true
		c.F1 = `{"a":1}`
		if gen.Chance(t, "bare", 30) {
			c.Args = []string{} // the binary called with nothing at all
			return c
		}
		c.Args = append(flags, gen.Pick(t, "badArgs", [][]string{
			{}, {"-p"}, {"f1", "f1", "f1"}, {"-p", "f1", "f1", "f1"}, {"-nosuch", "f1", "f1"}, {"-precision=x", "f1", "f1"},
			{"-port=x"}, {"-t=jd2patch", "f1", "f1"}, {"-f=patch", "-p"}, {"-set", "-mset", "-setkeys=id"},
		})...)
		return c
	}
	if gen.Chance(t, "emptyResult", 8) {
		if gen.Chance(t, "emptyResultToFile", 50) {
			flags = append(flags, "-o=result.txt")
		}
		// a well-formed patch that leaves no document, or the empty patch on
		// the empty document
		doc := gen.Pick(t, "wholeDoc", []string{`{"a":1}`, `[1,2]`, `"s"`, `1`, `null`})
		kind := gen.Int(t, "emptyKind", 0, 3)
		var f1, f2 string
		switch kind {
		case 0:
			f1, f2 = "@ []\n- "+doc+"\n", doc
		case 1:
			flags = append(flags, "-f=patch")
			f1, f2 = `[{"op":"test","path":"","value":`+doc+`},{"op":"remove","path":"","value":`+doc+`}]`, doc
		case 2:
			flags = append(flags, "-f=merge")
			f1, f2 = "null", doc
		default:
			f1, f2 = "", ""
		}
		c.F1, c.F2 = f1, &f2
		c.Args = append(append(flags, "-p"), "f1", "f2")
		return c
	}
	switch mode {
	case "diff":
		if gen.Chance(t, "format", 40) {
			flags = append(flags, "-f="+gen.Pick(t, "fmt", []string{"jd", "patch", "merge", "bogus"}))
		}
		c.F1 = doc()
		d2 := doc()
		if gen.Chance(t, "stdin", 30) {
			c.Stdin = &d2
			c.Args = append(flags, "f1")
		} else {
			c.F2 = &d2
			c.Args = append(flags, "f1", "f2")
		}
	case "patch":
		format := gen.Pick(t, "fmt", []string{"", "", "jd", "patch", "merge"})
		var tc TextCase
		switch format {
		case "patch":
			tc = genC13Patch(t)
			if gen.Chance(t, "bytes", 40) {
				tc = genC13Bytes(t)
			}
		case "merge":
			tc = genC13Merge(t)
		default:
			if gen.Chance(t, "struct", 50) {
				sc := genC13Struct(t)
				tc = TextCase{Text: specText(sc.Hunks), Target: sc.Target}
			} else {
				tc = genC13Bytes(t)
			}
		}
		if format != "" {
			flags = append(flags, "-f="+format)
		}
		flags = append(flags, "-p")
		c.F1 = tc.Text
		if gen.Chance(t, "stdin", 30) {
			c.Stdin = &tc.Target
			c.Args = append(flags, "f1")
		} else {
			c.F2 = &tc.Target
			c.Args = append(flags, "f1", "f2")
		}
	default:
		tr := gen.Pick(t, "tr", []string{"jd2patch", "jd2patch", "jd2patch", "patch2jd", "jd2merge", "jd2merge", "merge2jd", "json2yaml", "yaml2json", "jd2jd", "bogus"})
		var tc TextCase
		switch {
		case strings.HasPrefix(tr, "jd2") && gen.Chance(t, "structuredDiff", 60):
			// a well-formed native diff, often one the other format cannot express
			sc := genC13Struct(t)
			tc = TextCase{Text: specText(sc.Hunks), Target: sc.Target}
		case strings.HasPrefix(tr, "patch"):
			tc = genC13Patch(t)
		case strings.HasPrefix(tr, "merge"):
			tc = genC13Merge(t)
		default:
			tc = genC13Bytes(t)
		}
		c.F1 = tc.Text
		c.Args = append(flags, "-t="+tr, "f1")
	}
	return c
}

func init() {
	Register("C13", "structure", checkC13Struct)
	Register("C13", "patch", checkC13Text)
	Register("C13", "merge", checkC13Text)
	Register("C13", "bytes", checkC13Text)
	Register("C13", "constants", checkC13Text)
	Register("C13", "fuzz", checkC13Text)
	Register("C13", "cli", checkC13CLI)
}

func TestC13Structure(t *testing.T) { RunRandom(t, "C13", "structure", genC13Struct, checkC13Struct) }
func TestC13Patch(t *testing.T)     { RunRandom(t, "C13", "patch", genC13Patch, checkC13Text) }
func TestC13Merge(t *testing.T)     { RunRandom(t, "C13", "merge", genC13Merge, checkC13Text) }
func TestC13Bytes(t *testing.T)     { RunRandom(t, "C13", "bytes", genC13Bytes, checkC13Text) }
func TestC13CLI(t *testing.T)       { RunRandom(t, "C13", "cli", genC13CLI, checkC13CLI) }

// Every hostile constant through every reader, against a few targets.
func TestC13Constants(t *testing.T) {
	e := NewEnum(t, "C13", "constants", checkC13Text)
	defer e.Done()
	targets := []string{"", "1", "[]", "[1,2,3]", `{"a":[1,2]}`, `[[1],{"a":1}]`, `{"a":{"b":1}}`}
	e.r.Notes["constants"] = len(hostileTexts)
	for _, txt := range hostileTexts {
		if !e.Mine() {
			continue
		}
		for _, kind := range []string{"diff", "patch", "merge", "json", "yaml"} {
			for _, tg := range targets {
				e.Do(TextCase{Kind: kind, Text: txt, Target: tg})
			}
		}
	}
}

// ---- scale: long strings must not blow up memory
//
// A diff that replaces one long string by another is rendered, applied and
// translated; the bytes allocated by each call must stay linear in the
// length of the string (a quadratic table of 8 bytes per cell for two 70 KB
// strings is 39 GB: the process is killed instead of printing the diff).
// The oracle counts allocated bytes, not time.

type ScaleCase struct {
	N    int    `json:"n"`    // length of the string
	Wrap string `json:"wrap"` // "" | key | index
}

func allocatedBy(f func()) uint64 {
	var m0, m1 runtime.MemStats
	runtime.GC()
	runtime.ReadMemStats(&m0)
	f()
	runtime.ReadMemStats(&m1)
	return m1.TotalAlloc - m0.TotalAlloc
}

func checkC13Scale(c ScaleCase, r *rec.Rec) error {
	if c.N < 100 || c.N > 200000 {
		return fmt.Errorf("bad case")
	}
	base := strings.Repeat("long line ", c.N/10)
	mk := func(tail string) string {
		s := val.JSON(base + tail)
		switch c.Wrap {
		case "key":
			return `{"k":` + s + `,"n":1}`
		case "index":
			return `[0,` + s + `,2]`
		}
		return s
	}
	aText, bText := mk("0"), mk("1")
	bound := uint64(400*c.N + 4<<20)
	steps := []struct {
		name string
		f    func()
	}{
		{"Diff", func() { _ = jdx.NodeText(aText).Diff(jdx.NodeText(bText)) }},
		{"Diff+Render", func() { _ = jdx.NodeText(aText).Diff(jdx.NodeText(bText)).Render() }},
		{"Diff+RenderPatch", func() { _, _ = jdx.NodeText(aText).Diff(jdx.NodeText(bText)).RenderPatch() }},
		{"Diff(MERGE)+RenderMerge", func() { _, _ = jdx.NodeText(aText).Diff(jdx.NodeText(bText), jd.MERGE).RenderMerge() }},
		{"Diff+Patch", func() { _, _ = jdx.NodeText(aText).Patch(jdx.NodeText(aText).Diff(jdx.NodeText(bText))) }},
		{"Render+ReadDiffString", func() {
			_, _ = jd.ReadDiffString(jdx.NodeText(aText).Diff(jdx.NodeText(bText)).Render())
		}},
		{"Diff(SET)+Render", func() { _ = jdx.NodeText(aText).Diff(jdx.NodeText(bText), jd.SET).Render() }},
		{"Equals", func() { _ = jdx.NodeText(aText).Equals(jdx.NodeText(bText)) }},
		{"Yaml", func() { _ = jdx.NodeText(aText).Yaml() }},
	}
	for _, s := range steps {
		var got uint64
		if msg, p := jdx.Guard(func() { got = allocatedBy(s.f) }); p {
			return rec.Violated("%s panicked on a %d-byte string: %s", s.name, c.N, msg)
		}
		if got > bound {
			return rec.Violated("%s allocates %d bytes for documents holding one %d-byte string (more than %d = 400 bytes per byte of input + 4 MB): memory grows faster than linearly and a 70 KB string would need gigabytes", s.name, got, c.N, bound)
		}
	}
	r.Case(fmt.Sprintf("%d|%s", c.N, c.Wrap), true, "wrap="+c.Wrap)
	r.Sample(c)
	return nil
}

func init() { Register("C13", "scale", checkC13Scale) }

func TestC13Scale(t *testing.T) {
	e := NewEnum(t, "C13", "scale", checkC13Scale)
	defer e.Done()
	// ascending, so that a super-linear regression is caught at a small size
	for _, n := range []int{1000, 4000, 16000, 70000} {
		for _, w := range []string{"", "key", "index"} {
			e.Do(ScaleCase{N: n, Wrap: w})
		}
	}
}
