package props

import (
	"testing"

	"verifjd/rec"
)

// Native coverage-guided fuzz targets for C13 (thorough tier). The semantic
// oracle of the bytes leg runs inside each target; a violation is written
// out as an ordinary replay file before the target fails.

func fuzzText(f *testing.F, kind string) {
	for _, s := range hostileTexts {
		f.Add(s, `[1,{"a":[1,2]},[3]]`)
	}
	for _, s := range fuzzSeeds[kind] {
		f.Add(s, `{"a":[1,2,3],"b":{"c":1}}`)
		f.Add(s, `[1,2,3]`)
	}
	r := rec.New("C13", "fuzz")
	f.Fuzz(func(t *testing.T, text, target string) {
		c := TextCase{Kind: kind, Text: text, Target: target}
		if _, err := parseOK(target); err != nil {
			c.Target = "[1,2,3]"
		}
		err := guarded(checkC13Text, c, r)
		if err != nil && !r.Suppress(err) {
			if _, ok := err.(*rec.Violation); ok {
				r.WriteFail(c, err)
			}
			t.Fatalf("%v", err)
		}
	})
}

var fuzzSeeds = map[string][]string{
	"diff": {
		"@ [\"a\",1]\n  1\n- 2\n+ 4\n  3\n", "@ [0]\n[\n+ 1\n]\n", "@ [\"b\",\"c\"]\n- 1\n+ 2\n", "@ [\"a\",{}]\n- 1\n+ 5\n+ 6\n", "@ [\"a\",[]]\n- 1\n- 1\n+ 5\n",
		"^ {\"Merge\":true}\n@ [\"b\",\"c\"]\n+\n", "@ [\"a\",{\"id\":1},\"x\"]\n- 1\n+ 2\n", "@ []\n- [1,2,3]\n+ {}\n", "@ [2]\n  2\n- 3\n]\n@ [\"x\"]\n+ 1\n",
	},
	"patch": {
		`[{"op":"test","path":"/a/0","value":1},{"op":"test","path":"/a/1","value":2},{"op":"remove","path":"/a/1","value":2},{"op":"add","path":"/a/1","value":4}]`,
		`[{"op":"add","path":"/b/d","value":1}]`, `[{"op":"test","path":"/0","value":1},{"op":"remove","path":"/0","value":1}]`, `[{"op":"add","path":"/-","value":1}]`,
		`[{"op":"test","path":"/1","value":2},{"op":"test","path":"/2","value":3},{"op":"add","path":"/2","value":9}]`,
	},
	"merge": {`{"a":null}`, `{"b":{"c":null,"d":{}}}`, `{"a":[1]}`, `null`, `[1]`, `{"a":{"b":{"c":{}}}}`},
	"json":  {`{"a":[1,2,{"b":null}]}`, `[1,"a",true,null,1e21,-0]`, `"😀"`, `1`},
	"yaml":  {"a: 1\nb:\n- 1\n- x\n", "- a\n- - b\n  - c\n", "a: {b: [1, 2]}\n", "? a\n: b\n", "a: &x 1\nb: *x\n", "a: !!str 1\n", "1: 2\n", "- 1.5e3\n- 0x10\n- ~\n"},
}

func parseOK(s string) (interface{}, error) {
	var c TextCase
	_ = c
	return valParse(s)
}

func FuzzC13Diff(f *testing.F)  { fuzzText(f, "diff") }
func FuzzC13Patch(f *testing.F) { fuzzText(f, "patch") }
func FuzzC13Merge(f *testing.F) { fuzzText(f, "merge") }
func FuzzC13Json(f *testing.F)  { fuzzText(f, "json") }
func FuzzC13Yaml(f *testing.F)  { fuzzText(f, "yaml") }
