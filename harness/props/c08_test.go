package props

import (
	"fmt"
	"sort"
	"strings"
	"testing"

	jd "github.com/josephburnett/jd/v2"
	"pgregory.net/rapid"

	"verifjd/gen"
	"verifjd/jdx"
	"verifjd/rec"
	"verifjd/ref"
	"verifjd/val"
)

// C08 — set and multiset hunks have set / bag semantics.

var c08OptSets = []string{"set", "mset", "setkeys:id", "setkeys:id", "setkeys:id,k"}

func isBagPath(p []ref.PathElem) (string, bool) {
	for i, e := range p {
		switch e.Kind {
		case ref.SetElem:
			return "set-hunk", true
		case ref.MultisetElem:
			return "multiset-hunk", true
		case ref.SetKeys:
			if i < len(p)-1 {
				return "keyed-member-hunk", true
			}
		}
	}
	return "", false
}

// rewriteAt rebuilds doc with the node at path replaced by f(node).
func rewriteAt(doc val.V, path []ref.PathElem, f func(val.V) val.V) (val.V, bool) {
	if len(path) == 0 {
		return f(doc), true
	}
	e := path[0]
	switch e.Kind {
	case ref.Key:
		o, ok := doc.(map[string]val.V)
		if !ok {
			return nil, false
		}
		child, ok := o[e.Key]
		if !ok {
			return nil, false
		}
		nc, ok := rewriteAt(child, path[1:], f)
		if !ok {
			return nil, false
		}
		out := map[string]val.V{}
		for k, v := range o {
			out[k] = v
		}
		out[e.Key] = nc
		return out, true
	case ref.Index:
		l, ok := doc.([]val.V)
		if !ok || e.Index < 0 || e.Index >= len(l) {
			return nil, false
		}
		nc, ok := rewriteAt(l[e.Index], path[1:], f)
		if !ok {
			return nil, false
		}
		out := append([]val.V{}, l...)
		out[e.Index] = nc
		return out, true
	case ref.SetKeys:
		l, ok := doc.([]val.V)
		if !ok {
			return nil, false
		}
		for i, m := range l {
			o, ok := m.(map[string]val.V)
			if !ok {
				continue
			}
			match := true
			for k, want := range e.Keys {
				got, ok := o[k]
				if !ok || !val.Equal(got, want, val.Set) {
					match = false
				}
			}
			if match {
				nc, ok := rewriteAt(m, path[1:], f)
				if !ok {
					return nil, false
				}
				out := append([]val.V{}, l...)
				out[i] = nc
				return out, true
			}
		}
		return nil, false
	}
	return nil, false
}

// bagPrefix returns the path up to (excluding) the first {} / [] / keyed
// element: the location of the array the hunk addresses.
func bagPrefix(p []ref.PathElem) ([]ref.PathElem, ref.PathElem, []ref.PathElem) {
	for i, e := range p {
		if e.Kind == ref.SetElem || e.Kind == ref.MultisetElem || e.Kind == ref.SetKeys {
			return p[:i], e, p[i+1:]
		}
	}
	return p, ref.PathElem{Kind: ref.Key}, nil
}

// perturbBag edits the array a set-addressed hunk works on.
func perturbBag(t *rapid.T, doc val.V, h ref.Hunk) (val.V, string, bool) {
	prefix, elem, rest := bagPrefix(h.Path)
	if elem.Kind == ref.Key {
		return nil, "", false
	}
	how := ""
	nd, ok := rewriteAt(doc, prefix, func(v val.V) val.V {
		l, isArr := v.([]val.V)
		if !isArr {
			how = "already-not-array"
			return v
		}
		l = append([]val.V{}, l...)
		op := gen.Int(t, "bagOp", 0, 11)
		switch {
		case op == 0:
			how = "permute"
			if len(l) >= 2 {
				l = rapid.Permutation(l).Draw(t, "perm")
			}
		case op == 1 && len(h.Remove) > 0:
			how = "drop-removed-member"
			target := val.Canon(gen.Pick(t, "which", h.Remove), jdxReadingOf(elem))
			for i, m := range l {
				if val.Canon(m, jdxReadingOf(elem)) == target {
					l = append(l[:i:i], l[i+1:]...)
					break
				}
			}
		case op == 2 && len(h.Remove) > 0:
			how = "duplicate-removed-member"
			l = append(l, val.Clone(gen.Pick(t, "which", h.Remove)))
		case op == 3 && len(h.Add) > 0:
			how = "already-has-added-member"
			l = append(l, val.Clone(gen.Pick(t, "which", h.Add)))
		case op == 4:
			how = "extra-member"
			l = append([]val.V{freshScalar(t)}, l...)
		case op == 5 && len(l) > 0:
			how = "drop-some-member"
			i := gen.Int(t, "at", 0, len(l)-1)
			l = append(l[:i:i], l[i+1:]...)
		case op == 6:
			how = "not-an-array"
			return gen.Pick(t, "nonArray", []val.V{"str", 1.0, map[string]val.V{"id": 1.0}, nil})
		case op == 7 && len(h.Remove) > 0:
			how = "change-removed-member-inside"
			target := val.Canon(gen.Pick(t, "which", h.Remove), jdxReadingOf(elem))
			for i, m := range l {
				if val.Canon(m, jdxReadingOf(elem)) == target {
					l[i] = tweakInside(t, m)
					break
				}
			}
		case elem.Kind == ref.SetKeys && op <= 9:
			// change the member the hunk descends into
			for i, m := range l {
				o, isObj := m.(map[string]val.V)
				if !isObj {
					continue
				}
				match := true
				for k, want := range elem.Keys {
					got, ok := o[k]
					if !ok || !val.Equal(got, want, val.Set) {
						match = false
					}
				}
				if !match {
					continue
				}
				o2 := map[string]val.V{}
				for k, v := range o {
					o2[k] = v
				}
				keyNames := make([]string, 0, len(elem.Keys))
				for k := range elem.Keys {
					keyNames = append(keyNames, k)
				}
				sort.Strings(keyNames)
				theKey := gen.Pick(t, "whichKey", keyNames)
				memberOp := gen.Int(t, "memberOp", 0, 6)
				if memberOp >= 5 {
					// a look-alike in front of the addressed member: the same
					// object with one key value different (or, where the
					// addressed value is not null, with that key missing)
					twin := map[string]val.V{}
					for k, v := range o {
						twin[k] = val.Clone(v)
					}
					if memberOp == 6 && elem.Keys[theKey] != nil {
						how = "lookalike-lacking-one-key-in-front"
						delete(twin, theKey)
					} else {
						how = "lookalike-with-one-key-different-in-front"
						if elem.Keys[theKey] == nil {
							twin[theKey] = gen.Pick(t, "twinKeyValue", []val.V{7.0, "x", false})
						} else if gen.Chance(t, "toNull", 40) {
							twin[theKey] = nil
						} else {
							twin[theKey] = "other-id"
						}
					}
					at := gen.Int(t, "twinAt", 0, i)
					l = append(l[:at:at], append([]val.V{twin}, l[at:]...)...)
					break
				}
				switch memberOp {
				case 0:
					how = "member-nonkey-field-changed"
					if len(rest) > 0 && rest[0].Kind == ref.Key {
						o2[rest[0].Key] = freshScalar(t)
					} else {
						o2["zz"] = 1.0
					}
				case 1:
					how = "member-nonkey-field-removed"
					if len(rest) > 0 && rest[0].Kind == ref.Key {
						delete(o2, rest[0].Key)
					}
				case 2:
					how = "member-key-changed"
					o2[theKey] = "other-id"
				case 3:
					how = "member-key-missing"
					delete(o2, theKey)
				default:
					how = "member-other-field-added"
					o2["extra"] = freshScalar(t)
				}
				l[i] = o2
				break
			}
			if how == "" {
				how = "member-not-found"
			}
		default:
			how = "permute+extra"
			if len(l) >= 2 {
				l = rapid.Permutation(l).Draw(t, "perm")
			}
			l = append(l, "extra")
		}
		return l
	})
	return nd, how, ok
}

func jdxReadingOf(e ref.PathElem) val.Reading {
	if e.Kind == ref.MultisetElem || e.Kind == ref.MultisetKeys {
		return val.Multiset
	}
	return val.Set
}

func tweakInside(t *rapid.T, v val.V) val.V {
	switch x := v.(type) {
	case string:
		// the nearest other string: one byte changed at the start, in the
		// middle or at the end, the length kept
		if len(x) > 0 && gen.Chance(t, "nearString", 70) {
			at := gen.Pick(t, "changeAt", []int{0, len(x) / 2, len(x) - 1})
			b := []byte(x)
			if b[at] < 0x80 {
				if b[at] == 'q' {
					b[at] = 'r'
				} else {
					b[at] = 'q'
				}
				return string(b)
			}
		}
	case float64:
		if nv, ok := gen.NearScalar(t, x); ok && gen.Chance(t, "nearNumber", 70) {
			return nv
		}
	case []val.V:
		if len(x) > 0 && gen.Chance(t, "tweakElement", 50) {
			i := gen.Int(t, "tweakAt", 0, len(x)-1)
			out := append([]val.V{}, x...)
			out[i] = tweakInside(t, x[i])
			return out
		}
		return append(append([]val.V{}, x...), "tweak")
	case map[string]val.V:
		o := map[string]val.V{}
		for k, e := range x {
			o[k] = e
		}
		if ks := val.Keys(x); len(ks) > 0 && gen.Chance(t, "tweakMember", 50) {
			k := ks[gen.Int(t, "tweakKey", 0, len(ks)-1)]
			o[k] = tweakInside(t, x[k])
			return o
		}
		o["tweak"] = 1.0
		return o
	}
	return freshScalar(t)
}

func checkC08(c TargetCase, r *rec.Rec) error {
	cv, err := val.Parse(c.C)
	if err != nil {
		return fmt.Errorf("bad case: %v", err)
	}
	av, _ := val.Parse(c.A)
	bv, _ := val.Parse(c.B)
	opts := jdx.Options(c.Opts)
	rd := jdx.Reading(c.Opts)
	d, pmsg, panicked := jdx.DiffSafe(jdx.NodeText(c.A), jdx.NodeText(c.B), opts)
	if panicked {
		return rec.Violated("Diff panicked: %s", pmsg)
	}
	hs, err := jdx.ToHunks(d)
	if err != nil {
		return rec.Violated("diff holds an unreadable node: %v", err)
	}
	_, sh := subDiff(d, hs, c.Keep)
	keepIdx := c.Keep
	if keepIdx == nil {
		for i := range hs {
			keepIdx = append(keepIdx, i)
		}
	}
	viol := rec.Violated
	if ks := jdx.SetKeysOf(c.Opts); len(ks) >= 2 && permutedKeyTuples(ks, av, bv, cv) {
		viol = func(f string, a ...interface{}) error { return rec.Known("D21", f, a...) }
	}
	cur := val.Clone(cv)
	var cls []string
	nontrivial := false
	for n, h := range sh {
		kind, bag := isBagPath(h.Path)
		refNext, refErr := ref.Apply(cur, h)
		if refErr != nil && ref.ReasonOf(refErr) == ref.RMalformed {
			cls = append(cls, "out-of-domain:"+refErr.Error())
			break
		}
		// one hunk at a time, on a fresh parse of the running document and
		// a freshly computed diff value
		fresh := jdx.NodeText(c.A).Diff(jdx.NodeText(c.B), opts...)
		k := keepIdx[n]
		if k >= len(fresh) {
			return rec.Violated("Diff is not deterministic")
		}
		out := jdx.Patch(jdx.Node(cur), jd.Diff{fresh[k]})
		jdFails := !out.OK()
		if out.Panicked {
			cls = append(cls, "jd-panicked(counts-as-rejected)")
		}
		switch {
		case refErr != nil && !jdFails:
			got, _ := val.Parse(out.Node.Json())
			if kind == "keyed-member-hunk" && ref.InMember(refErr) && val.Equal(got, cur, rd) {
				// Known finding D14: the error of the nested patch of a keyed
				// member is dropped and the document is returned unchanged.
				return rec.Known("D14", "keyed hunk %s must fail inside the member of %s (%v) but Patch returns the document unchanged without an error", h, val.JSON(cur), refErr)
			}
			return viol("hunk %s must not apply to %s (%v) but Patch succeeded with %s", h, val.JSON(cur), refErr, out.Node.Json())
		case refErr == nil && jdFails:
			return viol("every expectation of hunk %s holds on %s (reference result %s) but Patch %s", h, val.JSON(cur), val.JSON(refNext), okWord(out))
		case refErr == nil:
			got, err := val.Parse(out.Node.Json())
			if err != nil {
				return viol("result of Patch is not readable JSON: %v", err)
			}
			if !val.Equal(got, refNext, rd) {
				return viol("hunk %s on %s: Patch gives %s, set/bag semantics give %s", h, val.JSON(cur), val.JSON(got), val.JSON(refNext))
			}
			if bag {
				cls = append(cls, "accepted:"+kind)
				if c.C != c.A {
					cls = append(cls, "accepted-on-c!=a:"+kind)
				}
			}
		default:
			if bag {
				cls = append(cls, "rejected:"+kind+":"+string(ref.ReasonOf(refErr)))
			}
		}
		if bag && c.C != c.A {
			nontrivial = true
		}
		if refErr != nil {
			break
		}
		cur = refNext
	}
	cls = append(cls, "opts="+c.Opts, "how="+c.How)
	r.Case(c.A+"|"+c.B+"|"+c.Opts+"|"+c.C+"|"+fmt.Sprint(c.Keep), nontrivial, dedupStrings(cls)...)
	if nontrivial {
		r.Sample(c)
	}
	return nil
}

// longMemberCase: a set / multiset hunk that removes (or adds) a long string
// member; the target holds a string of the same length that differs from it
// in one byte, instead of it or next to it.
func longMemberCase(t *rapid.T) TargetCase {
	opts := gen.Pick(t, "opts", []string{"set", "mset"})
	n := gen.Pick(t, "longLen", []int{70, 1100, 4200, 9000, 70000})
	long := strings.Repeat("s", n)
	at := gen.Pick(t, "twinAt", []int{0, n / 2, n - 1, 2100 % n, (n - 2100 + n) % n})
	tb := []byte(long)
	tb[at] = 'q'
	twin := string(tb)
	var m1, m2 val.V = long, twin
	if gen.Chance(t, "inObject", 35) {
		m1, m2 = map[string]val.V{"s": long}, map[string]val.V{"s": twin}
	}
	a := []val.V{m1, "x", 1.0}
	var b []val.V
	if gen.Chance(t, "added", 30) {
		a, b = []val.V{"x", 1.0}, []val.V{"x", 1.0, m1}
	} else {
		b = []val.V{"x", 1.0}
	}
	var c []val.V
	switch gen.Int(t, "longTarget", 0, 3) {
	case 0: // the twin instead of the member
		for _, e := range a {
			if val.Equal(e, m1, val.List) {
				c = append(c, m2)
			} else {
				c = append(c, e)
			}
		}
		if len(c) == len(b)-1 || len(a) == 2 {
			c = append(c, m2)
		}
	case 1: // the twin in front of the member
		c = append([]val.V{m2}, a...)
	case 2: // the twin behind the member
		c = append(append([]val.V{}, a...), m2)
	default:
		c = append([]val.V{}, a...)
	}
	wrap := func(v []val.V) val.V {
		return map[string]val.V{"k": v}
	}
	return TargetCase{A: val.JSON(wrap(a)), B: val.JSON(wrap(b)), Opts: opts, C: val.JSON(wrap(c)), How: "long-member-twin"}
}

func genC08(t *rapid.T) TargetCase {
	if gen.Chance(t, "longMember", 3) {
		return longMemberCase(t)
	}
	opts := gen.Pick(t, "opts", c08OptSets)
	p := profileFor(opts)
	p.VoidRoot = false
	p.ArrayBias = 50
	var a, b val.V
	if ks := jdx.SetKeysOf(opts); ks != nil && gen.Chance(t, "keyedPair", 80) {
		a, b = gen.KeyedPair(t, ks, p)
	} else {
		a = gen.Doc(t, p)
		b = gen.EditN(t, a, p, 1, 4)
	}
	c := TargetCase{A: val.JSON(a), B: val.JSON(b), Opts: opts}
	d, _, panicked := jdx.DiffSafe(jdx.Node(a), jdx.Node(b), jdx.Options(opts))
	var hs []ref.Hunk
	if !panicked {
		hs, _ = jdx.ToHunks(d)
	}
	c.Keep = drawKeep(t, len(hs))
	_, sh := subDiff(make(jd.Diff, len(hs)), hs, c.Keep)
	var bagHunks []ref.Hunk
	for _, h := range sh {
		if _, ok := isBagPath(h.Path); ok {
			bagHunks = append(bagHunks, h)
		}
	}
	r := gen.Int(t, "targetKind", 0, 99)
	switch {
	case r < 8:
		c.C, c.How = val.JSON(a), "a"
	case r < 25:
		c.C, c.How = val.JSON(gen.Permute(t, a, 80)), "permuted-a"
	case r < 35:
		tv := gen.Edit(t, a, p)
		c.C, c.How = val.JSON(tv), "edit(a)"
	default:
		if len(bagHunks) == 0 {
			c.C, c.How = val.JSON(gen.Permute(t, a, 80)), "permuted-a"
			break
		}
		h := gen.Pick(t, "bagHunk", bagHunks)
		base := a
		if gen.Chance(t, "permuteFirst", 40) {
			base = gen.Permute(t, a, 80)
		}
		nd, how, ok := perturbBag(t, base, h)
		if !ok {
			c.C, c.How = val.JSON(gen.Permute(t, a, 80)), "permuted-a"
			break
		}
		c.C, c.How = val.JSON(nd), "bag:"+how
	}
	return c
}

func init() { Register("C08", "random", checkC08) }

func TestC08Random(t *testing.T) { RunRandom(t, "C08", "random", genC08, checkC08) }
