package props

import (
	"fmt"
	"os"
	"path/filepath"
	"strings"
	"testing"

	v1 "github.com/josephburnett/jd/lib"
	jd "github.com/josephburnett/jd/v2"
	"pgregory.net/rapid"

	"verifjd/gen"
	"verifjd/jdx"
	"verifjd/rec"
	"verifjd/ref"
	"verifjd/val"
)

// C14 — CLI contract: library output, exit status 0/1/2, -o, stdin, -p round trip.

type ContractCase struct {
	A      string `json:"a"` // JSON text of the document ("" = empty file)
	B      string `json:"b"`
	Bin    string `json:"bin"`  // jd-v2 | jd-top | jd-top-v1 (top-level binary with -v2=false)
	Opts   string `json:"opts"` // option-set name, translated into flags
	Format string `json:"format"`
	Yaml   bool   `json:"yaml"`
	Color  bool   `json:"color"`
	Blanks bool   `json:"blanks,omitempty"` // -setkeys written with blanks around the keys
	JdYaml bool   `json:"jd_yaml,omitempty"` // with -yaml the input files are written by jd's own Yaml() (block scalars)
	Mode   string `json:"mode"`             // diff | translate | gitdiff
	Tr     string `json:"tr,omitempty"`
	TrIn   string `json:"tr_in,omitempty"`
}

type libResult struct {
	out    string
	status int // 0, 1 or 2
}

func (c ContractCase) text(v val.V) string {
	if c.Yaml && c.JdYaml && !val.IsVoid(v) {
		var out string
		if _, p := jdx.Guard(func() { out = jdx.Node(v).Yaml() }); !p {
			return out
		}
	}
	return docText(v, c.Yaml)
}

func (c ContractCase) binary() (string, []string) {
	if c.Bin == "jd-top-v1" {
		return "jd-top", []string{"-v2=false"}
	}
	return c.Bin, nil
}

func (c ContractCase) flags() []string {
	_, f := c.binary()
	f = append(f, optFlags(c.Opts)...)
	// optFlags turns "merge" into -f=merge; an explicit format replaces it
	var out []string
	for _, x := range f {
		if strings.HasPrefix(x, "-f=") {
			continue
		}
		if strings.HasPrefix(x, "-setkeys=") && c.Blanks {
			// the usage text allows blanks around the keys: "-setkeys id, name"
			x = "-setkeys= " + strings.ReplaceAll(strings.TrimPrefix(x, "-setkeys="), ",", " , ") + " "
		}
		out = append(out, x)
	}
	format := c.Format
	if jdx.IsMerge(c.Opts) {
		format = "merge"
	}
	if format != "" {
		out = append(out, "-f="+format)
	}
	if c.Yaml {
		out = append(out, "-yaml")
	}
	if c.Color {
		out = append(out, "-color")
	}
	return out
}

func (c ContractCase) format() string {
	if jdx.IsMerge(c.Opts) {
		return "merge"
	}
	return c.Format
}

// libDiff is what the library renders for the inputs, called in process.
func (c ContractCase) libDiff(aText, bText string) (res libResult) {
	defer func() {
		if r := recover(); r != nil {
			res = libResult{status: 2}
		}
	}()
	format := c.format()
	if c.Bin == "jd-top-v1" {
		read := v1.ReadJsonString
		if c.Yaml {
			read = v1.ReadYamlString
		}
		a, err := read(aText)
		if err != nil {
			return libResult{status: 2}
		}
		b, err := read(bText)
		if err != nil {
			return libResult{status: 2}
		}
		md := append(v1Metadata(stripMerge(c.Opts)), []v1.Metadata{}...)
		if format == "merge" {
			md = append(md, v1.MERGE)
		}
		md = append(md, v1.SetPrecision(precisionOf(c.Opts)))
		d := a.Diff(b, md...)
		var out string
		switch format {
		case "", "jd":
			if c.Color {
				out = d.Render(v1.COLOR)
			} else {
				out = d.Render()
			}
		case "patch":
			out, err = d.RenderPatch()
		case "merge":
			out, err = d.RenderMerge()
		}
		if err != nil {
			return libResult{status: 2}
		}
		st := 0
		if len(d) > 0 {
			st = 1
		}
		return libResult{out: out, status: st}
	}
	read := jd.ReadJsonString
	if c.Yaml {
		read = jd.ReadYamlString
	}
	a, err := read(aText)
	if err != nil {
		return libResult{status: 2}
	}
	b, err := read(bText)
	if err != nil {
		return libResult{status: 2}
	}
	opts := jdx.Options(stripMerge(c.Opts))
	if format == "merge" {
		opts = append(opts, jd.MERGE)
	}
	if _, has := jdx.Precision(c.Opts); !has {
		opts = append(opts, jd.Precision(0))
	}
	d := a.Diff(b, opts...)
	var out string
	switch format {
	case "", "jd":
		if c.Color {
			out = d.Render(jd.COLOR)
		} else {
			out = d.Render()
		}
	case "patch":
		out, err = d.RenderPatch()
	case "merge":
		out, err = d.RenderMerge()
	}
	if err != nil {
		return libResult{status: 2}
	}
	st := 0
	if len(d) > 0 {
		st = 1
	}
	return libResult{out: out, status: st}
}

func stripMerge(opts string) string {
	var parts []string
	for _, p := range strings.Split(opts, "+") {
		if p != "merge" {
			parts = append(parts, p)
		}
	}
	if len(parts) == 0 {
		return "list"
	}
	return strings.Join(parts, "+")
}

func precisionOf(opts string) float64 {
	p, _ := jdx.Precision(opts)
	return p
}

// libPatch is what the library gives for jd -p.
func (c ContractCase) libPatch(diffText, docText string) (res libResult, equalB func(bText string) bool) {
	defer func() {
		if r := recover(); r != nil {
			res = libResult{status: 2}
		}
	}()
	format := c.format()
	if c.Bin == "jd-top-v1" {
		var d v1.Diff
		var err error
		switch format {
		case "", "jd":
			d, err = v1.ReadDiffString(diffText)
		case "patch":
			d, err = v1.ReadPatchString(diffText)
		case "merge":
			d, err = v1.ReadMergeString(diffText)
		}
		if err != nil {
			return libResult{status: 2}, nil
		}
		read := v1.ReadJsonString
		if c.Yaml {
			read = v1.ReadYamlString
		}
		n, err := read(docText)
		if err != nil {
			return libResult{status: 2}, nil
		}
		out, err := n.Patch(d)
		if err != nil {
			return libResult{status: 2}, nil
		}
		md := v1Metadata(stripMerge(c.Opts))
		if format == "merge" {
			md = append(md, v1.MERGE)
		}
		md = append(md, v1.SetPrecision(precisionOf(c.Opts)))
		text := out.Json(md...)
		if c.Yaml {
			text = out.Yaml(md...)
		}
		return libResult{out: text, status: 0}, func(bText string) bool {
			b, err := read(bText)
			return err == nil && out.Equals(b, md...)
		}
	}
	var d jd.Diff
	var err error
	switch format {
	case "", "jd":
		d, err = jd.ReadDiffString(diffText)
	case "patch":
		d, err = jd.ReadPatchString(diffText)
	case "merge":
		d, err = jd.ReadMergeString(diffText)
	}
	if err != nil {
		return libResult{status: 2}, nil
	}
	read := jd.ReadJsonString
	if c.Yaml {
		read = jd.ReadYamlString
	}
	n, err := read(docText)
	if err != nil {
		return libResult{status: 2}, nil
	}
	out, err := n.Patch(d)
	if err != nil {
		return libResult{status: 2}, nil
	}
	opts := jdx.Options(stripMerge(c.Opts))
	if format == "merge" {
		opts = append(opts, jd.MERGE)
	}
	if _, has := jdx.Precision(c.Opts); !has {
		opts = append(opts, jd.Precision(0))
	}
	text := out.Json(opts...)
	if c.Yaml {
		text = out.Yaml(opts...)
	}
	return libResult{out: text, status: 0}, func(bText string) bool {
		b, err := read(bText)
		return err == nil && out.Equals(b, opts...)
	}
}

func readFileOr(dir, name string) string {
	b, err := os.ReadFile(filepath.Join(dir, name))
	if err != nil {
		return "<missing>"
	}
	return string(b)
}

func checkC14(c ContractCase, r *rec.Rec) error {
	if !haveCLI() {
		return inconclusive{"jd binaries not built"}
	}
	switch c.Mode {
	case "translate":
		return checkC14Translate(c, r)
	case "gitdiff":
		return checkC14GitDiff(c, r)
	}
	av, err := val.Parse(c.A)
	if err != nil {
		return fmt.Errorf("bad case: %v", err)
	}
	bv, err := val.Parse(c.B)
	if err != nil {
		return fmt.Errorf("bad case: %v", err)
	}
	viol := rec.Violated
	if containsMagic(av, bv) {
		viol = func(f string, a ...interface{}) error { return rec.Known("D15", f, a...) }
	}
	bin, _ := c.binary()
	flags := c.flags()
	aText, bText := c.text(av), c.text(bv)
	dir, cleanup := caseDir()
	defer cleanup()
	writeFile(dir, "a", aText)
	writeFile(dir, "b", bText)
	want := c.libDiff(aText, bText)
	desc := fmt.Sprintf("%s %s a b (a=%q b=%q)", c.Bin, strings.Join(flags, " "), aText, bText)

	// 1. plain run
	res := runCLI(bin, append(append([]string{}, flags...), "a", "b"), nil, dir)
	if err := cliTrouble(res); err != nil {
		return err
	}
	if res.Status != want.status {
		return viol("%s exits %d, the library call gives status %d\nstdout:\n%s\nstderr:\n%s", desc, res.Status, want.status, res.Stdout, res.Stderr)
	}
	if want.status != 2 && res.Stdout != want.out {
		return viol("%s prints\n%q\nthe library renders\n%q", desc, res.Stdout, want.out)
	}
	if want.status == 2 && res.Stdout != "" {
		return viol("%s exits 2 but prints %q", desc, res.Stdout)
	}
	// 2. -o (the output file already exists and is longer than what will be written)
	writeFile(dir, "out", strings.Repeat("stale content of an earlier run\n", 200))
	res2 := runCLI(bin, append(append([]string{"-o=out"}, flags...), "a", "b"), nil, dir)
	if err := cliTrouble(res2); err != nil {
		return err
	}
	if res2.Status != want.status {
		return viol("%s with -o exits %d instead of %d", desc, res2.Status, want.status)
	}
	if res2.Stdout != "" {
		return viol("%s with -o still prints to stdout: %q", desc, res2.Stdout)
	}
	if want.status != 2 {
		if got := readFileOr(dir, "out"); got != want.out {
			return viol("%s with -o writes %q, expected %q", desc, got, want.out)
		}
	}
	// 2b. an output file that cannot be written is an error (status 2)
	res2u := runCLI(bin, append(append([]string{"-o=no-such-directory/out"}, flags...), "a", "b"), nil, dir)
	if err := cliTrouble(res2u); err != nil {
		return err
	}
	if res2u.Status != 2 {
		return viol("%s with -o=no-such-directory/out exits %d (stdout %q): the output could not be written, which is an error (status 2)", desc, res2u.Status, res2u.Stdout)
	}
	// 2c. FILE2 named as a path that is a pipe
	res2p := runCLI(bin, append(append([]string{}, flags...), "a", "/dev/stdin"), &bText, dir)
	if err := cliTrouble(res2p); err != nil {
		return err
	}
	if res2p.Status != res.Status || res2p.Stdout != res.Stdout {
		return viol("%s: naming /dev/stdin (a pipe) as FILE2 gives status %d and %q, naming the file gives status %d and %q", desc, res2p.Status, res2p.Stdout, res.Status, res.Stdout)
	}
	// 3. second input from stdin
	res3 := runCLI(bin, append(append([]string{}, flags...), "a"), &bText, dir)
	if err := cliTrouble(res3); err != nil {
		return err
	}
	if res3.Status != res.Status || res3.Stdout != res.Stdout {
		return viol("%s: reading b from stdin gives status %d and %q, naming the file gives status %d and %q", desc, res3.Status, res3.Stdout, res.Status, res.Stdout)
	}
	res3f := runCLIFileStdin(bin, append(append([]string{}, flags...), "a"), bText, dir)
	if err := cliTrouble(res3f); err != nil {
		return err
	}
	if res3f.Status != res.Status || res3f.Stdout != res.Stdout {
		return viol("%s: reading b from stdin redirected from a file gives status %d and %q, naming the file gives status %d and %q", desc, res3f.Status, res3f.Stdout, res.Status, res.Stdout)
	}
	cls := []string{"bin=" + c.Bin, "opts=" + c.Opts, "format=" + c.format(), fmt.Sprintf("status=%d", want.status)}
	if c.Yaml {
		cls = append(cls, "yaml")
	}
	if c.Color {
		cls = append(cls, "color")
	}
	// 3b. the same file named twice: what the library gives for (a, a), also with -o
	{
		wantSame := c.libDiff(aText, aText)
		resS := runCLI(bin, append(append([]string{}, flags...), "a", "a"), nil, dir)
		if err := cliTrouble(resS); err != nil {
			return err
		}
		if resS.Status != wantSame.status || (wantSame.status != 2 && resS.Stdout != wantSame.out) {
			return viol("%s a a (the same file twice): status %d and %q, the library gives status %d and %q", c.Bin+" "+strings.Join(flags, " "), resS.Status, resS.Stdout, wantSame.status, wantSame.out)
		}
		writeFile(dir, "sameout", strings.Repeat("stale content of an earlier run\n", 50))
		resSo := runCLI(bin, append(append([]string{"-o=sameout"}, flags...), "a", "a"), nil, dir)
		if err := cliTrouble(resSo); err != nil {
			return err
		}
		if wantSame.status != 2 && (resSo.Status != wantSame.status || resSo.Stdout != "" || readFileOr(dir, "sameout") != wantSame.out) {
			return viol("%s -o a a (the same file twice): status %d, stdout %q, file %q; expected status %d and %q in the file only", c.Bin+" "+strings.Join(flags, " "), resSo.Status, resSo.Stdout, readFileOr(dir, "sameout"), wantSame.status, wantSame.out)
		}
	}
	// 4. the printed diff, applied with -p, reproduces b
	if want.status != 2 && !c.Color {
		writeFile(dir, "d", res.Stdout)
		wantP, equalB := c.libPatch(res.Stdout, aText)
		pviol := viol
		_, aObj := av.(map[string]val.V)
		if bo, ok := bv.(map[string]val.V); ok && len(bo) == 0 && !aObj && c.format() == "merge" {
			pviol = func(f string, a ...interface{}) error { return rec.Known("D17", f, a...) }
		}
		resP := runCLI(bin, append(append([]string{"-p"}, flags...), "d", "a"), nil, dir)
		if err := cliTrouble(resP); err != nil {
			return err
		}
		pdesc := fmt.Sprintf("%s -p %s d a (d=%q a=%q)", c.Bin, strings.Join(flags, " "), res.Stdout, aText)
		if resP.Status != wantP.status {
			return pviol("%s exits %d, the library call gives status %d\nstderr: %s", pdesc, resP.Status, wantP.status, resP.Stderr)
		}
		if wantP.status != 0 {
			return pviol("%s: the diff printed by jd does not apply to a (library status %d)", pdesc, wantP.status)
		}
		if resP.Stdout != wantP.out {
			return pviol("%s prints %q, the library gives %q", pdesc, resP.Stdout, wantP.out)
		}
		if !equalB(bText) {
			return pviol("%s yields %q which is not Equal to b = %q under the flags", pdesc, resP.Stdout, bText)
		}
		// -o and stdin in patch mode
		writeFile(dir, "pout", strings.Repeat("stale content of an earlier run\n", 200))
		resPo := runCLI(bin, append(append([]string{"-p", "-o=pout"}, flags...), "d", "a"), nil, dir)
		if err := cliTrouble(resPo); err != nil {
			return err
		}
		if resPo.Status != 0 || resPo.Stdout != "" || readFileOr(dir, "pout") != wantP.out {
			return pviol("%s with -o: status %d, stdout %q, file %q; expected the patched document %q in the file only", pdesc, resPo.Status, resPo.Stdout, readFileOr(dir, "pout"), wantP.out)
		}
		// patching in place: -o names the document that is being patched
		writeFile(dir, "inplace", aText)
		resPi := runCLI(bin, append(append([]string{"-p", "-o=inplace"}, flags...), "d", "inplace"), nil, dir)
		if err := cliTrouble(resPi); err != nil {
			return err
		}
		if resPi.Status != 0 || resPi.Stdout != "" || readFileOr(dir, "inplace") != wantP.out {
			return pviol("%s with -o naming the patched document itself: status %d, stdout %q, file %q; expected the patched document %q in the file", pdesc, resPi.Status, resPi.Stdout, readFileOr(dir, "inplace"), wantP.out)
		}
		resPs := runCLI(bin, append(append([]string{"-p"}, flags...), "d"), &aText, dir)
		if err := cliTrouble(resPs); err != nil {
			return err
		}
		if resPs.Status != resP.Status || resPs.Stdout != resP.Stdout {
			return pviol("%s: reading the document from stdin gives status %d and %q instead of status %d and %q", pdesc, resPs.Status, resPs.Stdout, resP.Status, resP.Stdout)
		}
		resPf := runCLIFileStdin(bin, append(append([]string{"-p"}, flags...), "d"), aText, dir)
		if err := cliTrouble(resPf); err != nil {
			return err
		}
		if resPf.Status != resP.Status || resPf.Stdout != resP.Stdout {
			return pviol("%s: reading the document from stdin redirected from a file gives status %d and %q instead of status %d and %q", pdesc, resPf.Status, resPf.Stdout, resP.Status, resP.Stdout)
		}
		cls = append(cls, "round-trip")
	}
	nontrivial := len(flags) > 0 && want.status == 1
	r.Case(fmt.Sprintf("%s|%s|%s|%v", c.A, c.B, c.Bin, flags), nontrivial, cls...)
	if nontrivial {
		r.Sample(c)
	}
	return nil
}

// libTranslate is the library's translation, in process.
func (c ContractCase) libTranslate() (res libResult) {
	defer func() {
		if r := recover(); r != nil {
			res = libResult{status: 2}
		}
	}()
	in := c.TrIn
	var out string
	var err error
	if c.Bin == "jd-top-v1" {
		switch c.Tr {
		case "jd2patch":
			var d v1.Diff
			if d, err = v1.ReadDiffString(in); err == nil {
				out, err = d.RenderPatch()
			}
		case "patch2jd":
			var d v1.Diff
			if d, err = v1.ReadPatchString(in); err == nil {
				out = d.Render()
			}
		case "jd2merge":
			var d v1.Diff
			if d, err = v1.ReadDiffString(in); err == nil {
				out, err = d.RenderMerge()
			}
		case "merge2jd":
			var d v1.Diff
			if d, err = v1.ReadMergeString(in); err == nil {
				out = d.Render()
			}
		case "json2yaml":
			var n v1.JsonNode
			if n, err = v1.ReadJsonString(in); err == nil {
				out = n.Yaml()
			}
		case "yaml2json":
			var n v1.JsonNode
			if n, err = v1.ReadYamlString(in); err == nil {
				out = n.Json()
			}
		default:
			err = fmt.Errorf("unsupported")
		}
	} else {
		switch c.Tr {
		case "jd2patch":
			var d jd.Diff
			if d, err = jd.ReadDiffString(in); err == nil {
				out, err = d.RenderPatch()
			}
		case "patch2jd":
			var d jd.Diff
			if d, err = jd.ReadPatchString(in); err == nil {
				out = d.Render()
			}
		case "jd2merge":
			var d jd.Diff
			if d, err = jd.ReadDiffString(in); err == nil {
				out, err = d.RenderMerge()
			}
		case "merge2jd":
			var d jd.Diff
			if d, err = jd.ReadMergeString(in); err == nil {
				out = d.Render()
			}
		case "json2yaml":
			var n jd.JsonNode
			if n, err = jd.ReadJsonString(in); err == nil {
				out = n.Yaml()
			}
		case "yaml2json":
			var n jd.JsonNode
			if n, err = jd.ReadYamlString(in); err == nil {
				out = n.Json()
			}
		default:
			err = fmt.Errorf("unsupported")
		}
	}
	if err != nil {
		return libResult{status: 2}
	}
	return libResult{out: out, status: 0}
}

func checkC14Translate(c ContractCase, r *rec.Rec) error {
	bin, pre := c.binary()
	dir, cleanup := caseDir()
	defer cleanup()
	writeFile(dir, "in", c.TrIn)
	want := c.libTranslate()
	desc := fmt.Sprintf("%s -t=%s in (in=%q)", c.Bin, c.Tr, c.TrIn)
	res := runCLI(bin, append(append([]string{}, pre...), "-t="+c.Tr, "in"), nil, dir)
	if err := cliTrouble(res); err != nil {
		return err
	}
	if res.Status != want.status {
		return rec.Violated("%s exits %d, the library call gives status %d\nstdout: %q\nstderr: %s", desc, res.Status, want.status, res.Stdout, res.Stderr)
	}
	if want.status == 0 && res.Stdout != want.out {
		return rec.Violated("%s prints %q, the library translates to %q", desc, res.Stdout, want.out)
	}
	if want.status == 2 && res.Stdout != "" {
		return rec.Violated("%s exits 2 but prints %q", desc, res.Stdout)
	}
	// -o and stdin
	writeFile(dir, "out", strings.Repeat("stale content of an earlier run\n", 200))
	res2 := runCLI(bin, append(append([]string{}, pre...), "-o=out", "-t="+c.Tr, "in"), nil, dir)
	if err := cliTrouble(res2); err != nil {
		return err
	}
	if res2.Status != want.status || res2.Stdout != "" || (want.status == 0 && readFileOr(dir, "out") != want.out) {
		return rec.Violated("%s with -o: status %d, stdout %q, file %q; expected status %d and %q in the file only", desc, res2.Status, res2.Stdout, readFileOr(dir, "out"), want.status, want.out)
	}
	res3 := runCLI(bin, append(append([]string{}, pre...), "-t="+c.Tr), &c.TrIn, dir)
	if err := cliTrouble(res3); err != nil {
		return err
	}
	if res3.Status != res.Status || res3.Stdout != res.Stdout {
		return rec.Violated("%s: input from stdin gives status %d and %q instead of status %d and %q", desc, res3.Status, res3.Stdout, res.Status, res.Stdout)
	}
	res3f := runCLIFileStdin(bin, append(append([]string{}, pre...), "-t="+c.Tr), c.TrIn, dir)
	if err := cliTrouble(res3f); err != nil {
		return err
	}
	if res3f.Status != res.Status || res3f.Stdout != res.Stdout {
		return rec.Violated("%s: input from stdin redirected from a file gives status %d and %q instead of status %d and %q", desc, res3f.Status, res3f.Stdout, res.Status, res.Stdout)
	}
	r.Case(c.Bin+"|"+c.Tr+"|"+c.TrIn, want.status == 0 && c.TrIn != "", "bin="+c.Bin, "translate="+c.Tr, fmt.Sprintf("status=%d", want.status))
	if want.status == 0 {
		r.Sample(c)
	}
	return nil
}

func checkC14GitDiff(c ContractCase, r *rec.Rec) error {
	av, err := val.Parse(c.A)
	if err != nil {
		return fmt.Errorf("bad case: %v", err)
	}
	bv, err := val.Parse(c.B)
	if err != nil {
		return fmt.Errorf("bad case: %v", err)
	}
	bin, _ := c.binary()
	flags := c.flags()
	aText, bText := c.text(av), c.text(bv)
	dir, cleanup := caseDir()
	defer cleanup()
	writeFile(dir, "a", aText)
	writeFile(dir, "b", bText)
	lib := c
	if c.Bin == "jd-top-v1" {
		// the git diff driver only exists on top of the v2 library; -v2=false must not change what the other flags mean
		lib.Bin = "jd-top"
	}
	want := lib.libDiff(aText, bText)
	args := append(append([]string{"-git-diff-driver"}, flags...), "path", "a", "0123abc", "100644", "b", "4567def", "100644")
	res := runCLI(bin, args, nil, dir)
	if err := cliTrouble(res); err != nil {
		return err
	}
	desc := fmt.Sprintf("%s %s (a=%q b=%q)", c.Bin, strings.Join(args, " "), aText, bText)
	if want.status == 2 {
		if res.Status != 2 {
			return rec.Violated("%s exits %d, the library call fails", desc, res.Status)
		}
	} else {
		if res.Status != 0 {
			return rec.Violated("%s exits %d, a git diff driver must exit 0\nstderr: %s", desc, res.Status, res.Stderr)
		}
		if res.Stdout != want.out {
			return rec.Violated("%s prints %q, the diff of arguments 2 and 5 is %q", desc, res.Stdout, want.out)
		}
	}
	r.Case(fmt.Sprintf("git|%s|%s|%s|%v", c.A, c.B, c.Bin, flags), want.status == 1, "bin="+c.Bin, "gitdiff", "opts="+c.Opts)
	if want.status == 1 {
		r.Sample(c)
	}
	return nil
}

var c14OptSets = []string{"list", "list", "set", "mset", "setkeys:id", "setkeys:id", "setkeys:id", "merge", "set+merge", "mset+merge", "prec:0.1", "prec:0.001", "set+mset", "setkeys:a b"}

func genC14(t *rapid.T) ContractCase {
	c := ContractCase{Bin: gen.Pick(t, "bin", []string{"jd-v2", "jd-top", "jd-top-v1"})}
	mode := gen.Int(t, "mode", 0, 99)
	switch {
	case mode < 70:
		c.Mode = "diff"
	case mode < 90:
		c.Mode = "translate"
	default:
		c.Mode = "gitdiff"
	}
	if c.Mode == "translate" {
		c.Tr = gen.Pick(t, "tr", []string{"jd2patch", "patch2jd", "jd2merge", "merge2jd", "json2yaml", "yaml2json"})
		a, b, _ := genListPairNasty(t)
		switch c.Tr {
		case "jd2patch":
			if c.Bin == "jd-top-v1" {
				c.TrIn = v1Node(val.JSON(a)).Diff(v1Node(val.JSON(b))).Render()
			} else {
				c.TrIn = jdx.Node(a).Diff(jdx.Node(b)).Render()
			}
		case "patch2jd":
			if c.Bin == "jd-top-v1" {
				c.TrIn, _ = v1Node(val.JSON(a)).Diff(v1Node(val.JSON(b))).RenderPatch()
			} else {
				jdx.Guard(func() { c.TrIn, _ = jdx.Node(a).Diff(jdx.Node(b)).RenderPatch() })
			}
		case "jd2merge":
			pc := genC11(t)
			if c.Bin == "jd-top-v1" {
				c.TrIn = v1Node(pc.A).Diff(v1Node(pc.B), v1.MERGE).Render()
			} else {
				c.TrIn = jdx.NodeText(pc.A).Diff(jdx.NodeText(pc.B), jd.MERGE).Render()
			}
		case "merge2jd":
			c.TrIn = val.JSON(genMergeDoc(t, gen.Object(t, gen.Profile{}, 0)))
		case "json2yaml":
			c.TrIn = val.JSON(c16Doc(t))
		default:
			c.TrIn = ref.YAMLEmit(c16Doc(t))
		}
		if gen.Chance(t, "integerKeyPath", 12) && (c.Tr == "jd2patch" || c.Tr == "patch2jd") {
			// a hunk below an object key spelled like an integer
			k := gen.Pick(t, "intKey", []string{"0", "1", "01", "-1", "+1", "10"})
			ia, ib := map[string]val.V{k: []val.V{1.0, 2.0}, "z": 0.0}, map[string]val.V{k: []val.V{1.0, 3.0}, "z": 0.0}
			if gen.Chance(t, "scalarMember", 50) {
				ia[k], ib[k] = 1.0, 2.0
			}
			if c.Bin == "jd-top-v1" {
				d := v1Node(val.JSON(ia)).Diff(v1Node(val.JSON(ib)))
				if c.Tr == "jd2patch" {
					c.TrIn = d.Render()
				} else {
					c.TrIn, _ = d.RenderPatch()
				}
			} else if c.Tr == "jd2patch" {
				c.TrIn = jdx.Node(ia).Diff(jdx.Node(ib)).Render()
			}
		}
		if gen.Chance(t, "emptyTranslation", 10) {
			// inputs whose translation is the empty text or the empty patch
			switch c.Tr {
			case "merge2jd":
				c.TrIn = "{}"
			case "patch2jd":
				c.TrIn = "[]"
			case "jd2patch", "jd2merge", "json2yaml", "yaml2json":
				c.TrIn = ""
			}
			return c
		}
		if gen.Chance(t, "broken", 12) {
			c.TrIn = mutateText(t, c.TrIn)
		}
		return c
	}
	c.Opts = gen.Pick(t, "opts", c14OptSets)
	pc := genPairCase(t, []string{c.Opts}, func(p *gen.Profile) {
		p.VoidRoot = gen.Chance(t, "voidOK", 15)
		p.Big = 10
		p.Payload = gen.Chance(t, "payload", 35)
	})
	c.Blanks = gen.Chance(t, "blanks", 50)
	if _, isPrec := jdx.Precision(c.Opts); isPrec {
		pc = genEqPair(t, []string{"list"}, true)
		if _, ok := jdx.Precision(pc.Opts); ok {
			c.Opts = pc.Opts
		} else {
			c.Opts = "list"
		}
	}
	c.A, c.B = pc.A, pc.B
	hostile := false
	if jdx.IsMerge(c.Opts) && gen.Chance(t, "hostileMember", 50) {
		hostile = true
		// a changed member whose JSON text a YAML reader takes differently
		if bo, ok := val.MustParse(pc.B).(map[string]val.V); ok {
			bo[gen.Pick(t, "hk", []string{"p", "100%", "a"})] = gen.Pick(t, "hv", hostileMergeValues)
			c.B = val.JSON(bo)
		}
	}
	if !jdx.IsMerge(c.Opts) {
		switch gen.Int(t, "format", 0, 5) {
		case 0:
			c.Format = "jd"
		case 1, 2:
			if jdx.Reading(c.Opts) == val.List {
				c.Format = "patch"
			}
		}
	}
	if c.Mode == "gitdiff" && gen.Chance(t, "unrenderable", 30) {
		// a diff the requested format cannot express: the driver must fail like the diff mode does
		k := gen.Pick(t, "unrenderableKey", []string{"-", "01", "1", "+1"})
		c.A, c.B = val.JSON(map[string]val.V{k: 1.0, "z": 0.0}), val.JSON(map[string]val.V{k: 2.0, "z": 0.0})
		c.Opts, c.Format = "list", "patch"
		if gen.Chance(t, "setWithPatch", 40) {
			c.A, c.B = "[1,2]", "[1,3]"
			c.Opts = gen.Pick(t, "setOpts", []string{"set", "mset", "setkeys:id"})
		}
	}
	c.Yaml = gen.Chance(t, "yaml", 25) || (hostile && gen.Chance(t, "yamlForHostile", 50))
	if c.Yaml {
		c.JdYaml = gen.Chance(t, "jdYaml", 50)
		if gen.Chance(t, "lastScalarEndsInNewline", 35) {
			// the last value of the file is a string ending in a line break
			if bo, ok := val.MustParse(c.B).(map[string]val.V); ok {
				bo["zz"] = gen.Pick(t, "tailText", []string{"line\n", "two\nlines\n", "keep\n\n", "x\n ", "nbsp\u00a0"})
				c.B = val.JSON(bo)
				if ao, ok := val.MustParse(c.A).(map[string]val.V); ok && gen.Chance(t, "alsoInA", 40) {
					ao["zz"] = "other\n"
					c.A = val.JSON(ao)
				}
			}
		}
	}
	c.Color = c.Mode == "diff" && c.Format != "patch" && !jdx.IsMerge(c.Opts) && gen.Chance(t, "color", 12) && !hasLongString(val.MustParse(c.A), 3000)
	return c
}

func init() { Register("C14", "random", checkC14) }

func TestC14Random(t *testing.T) { RunRandom(t, "C14", "random", genC14, checkC14) }

// Library-level pre-check of the -precision round trip: the diff made under
// Precision(eps), applied in memory to a, must Equal b under the same
// option (the CLI round trip above can only hold if this does).
func genC14Precision(t *rapid.T) PairCase {
	for i := 0; i < 4; i++ {
		pc := genEqPair(t, []string{"list"}, true)
		if _, ok := jdx.Precision(pc.Opts); ok {
			return pc
		}
	}
	eps := gen.Pick(t, "eps", c04Eps)
	p := gen.Profile{Floats: true, ArrayBias: 60}
	a := gen.Doc(t, p)
	return PairCase{A: val.JSON(a), B: val.JSON(nudgeNumbers(t, a, eps)), Opts: fmt.Sprintf("prec:%v", eps)}
}

func init() { Register("C14", "precision", checkC01) }

func TestC14Precision(t *testing.T) {
	RunRandom(t, "C14", "precision", genC14Precision, func(c PairCase, r *rec.Rec) error {
		r.Prop, r.Leg = "C14", "precision"
		return checkC01(c, r)
	})
}
