package props

import (
	"fmt"
	"strings"
	"testing"

	jd "github.com/josephburnett/jd/v2"
	"pgregory.net/rapid"

	"verifjd/gen"
	"verifjd/jdx"
	"verifjd/rec"
	"verifjd/ref"
	"verifjd/val"
)

// C05 — a diff is empty exactly when the documents are equal; CLI exit 0/1.

var c05OptSets = []string{"list", "set", "mset", "setkeys:id", "setkeys:id,k", "setkeys:id,k,a", "setkeys:id,k,a", "merge", "set+merge", "mset+merge", "set+mset", "mset+set"}

func checkC05(c PairCase, r *rec.Rec) error {
	av, err := val.Parse(c.A)
	if err != nil {
		return fmt.Errorf("bad case: %v", err)
	}
	bv, err := val.Parse(c.B)
	if err != nil {
		return fmt.Errorf("bad case: %v", err)
	}
	opts := jdx.Options(c.Opts)
	viol := rec.Violated
	if containsMagic(av, bv) {
		viol = func(f string, a ...interface{}) error { return rec.Known("D15", f, a...) }
	}
	if ks := jdx.SetKeysOf(c.Opts); len(ks) >= 2 && (permutedKeyTuplesWithin(ks, av) || permutedKeyTuplesWithin(ks, bv)) {
		// Known finding D21: two members of one array with key tuples (x,y) and (y,x) share one identity.
		viol = func(f string, a ...interface{}) error { return rec.Known("D21", f, a...) }
	}
	equal := jdx.NodeText(c.A).Equals(jdx.NodeText(c.B), opts...)
	d, pmsg, panicked := jdx.DiffSafe(jdx.NodeText(c.A), jdx.NodeText(c.B), opts)
	if panicked {
		return rec.Violated("Diff panicked: %s", pmsg)
	}
	if (len(d) == 0) != equal {
		return viol("under %s: Equals(%s, %s) = %v but the diff has %d hunks:\n%s", c.Opts, c.A, c.B, equal, len(d), d.Render())
	}
	// the other direction of the diff as well
	d2, pmsg, panicked := jdx.DiffSafe(jdx.NodeText(c.B), jdx.NodeText(c.A), opts)
	if panicked {
		return rec.Violated("Diff panicked: %s", pmsg)
	}
	if (len(d2) == 0) != (len(d) == 0) {
		return viol("under %s: a.Diff(b) has %d hunks but b.Diff(a) has %d (a=%s b=%s)", c.Opts, len(d), len(d2), c.A, c.B)
	}
	cls := []string{"opts=" + c.Opts}
	switch {
	case c.A == c.B:
		cls = append(cls, "same-text")
	case equal:
		cls = append(cls, "equal-but-texts-differ", "equal-but-texts-differ:"+c.Opts)
	default:
		cls = append(cls, "unequal", "unequal:"+c.Opts)
	}
	r.Case(c.A+"|"+c.B+"|"+c.Opts, c.A != c.B, cls...)
	if c.A != c.B && equal {
		r.Sample(c)
	}
	return nil
}

// bigCountsPair: multisets over 2-3 symbols whose multiplicities are large
// and are exchanged between the two sides.
func bigCountsPair(t *rapid.T) PairCase {
	syms := []val.V{1.0, 2.0, "x"}[:gen.Int(t, "nSyms", 2, 3)]
	counts := make([]int, len(syms))
	for i := range counts {
		counts[i] = gen.Pick(t, "count", []int{1, 2, 44, 255, 256, 257, 300})
	}
	build := func(cs []int) val.V {
		var out []val.V
		for i, s := range syms {
			for k := 0; k < cs[i]; k++ {
				out = append(out, s)
			}
		}
		return out
	}
	a := build(counts)
	perm := rapid.Permutation(counts).Draw(t, "countPerm")
	b := build(perm)
	opts := gen.Pick(t, "opts", []string{"mset", "mset", "mset+merge", "set"})
	if gen.Chance(t, "underKey", 40) {
		a, b = map[string]val.V{"k": a}, map[string]val.V{"k": b}
	}
	return PairCase{A: val.JSON(a), B: val.JSON(b), Opts: opts}
}

func genC05(t *rapid.T) PairCase {
	if gen.Chance(t, "bigCounts", 2) {
		return bigCountsPair(t)
	}
	if gen.Chance(t, "mergeWithNulls", 6) {
		// the biconditional does not need null-free documents
		opts := gen.Pick(t, "opts", []string{"merge", "set+merge", "mset+merge"})
		p := gen.Profile{VoidRoot: true}
		a := gen.Doc(t, p)
		var b val.V
		if val.IsVoid(a) {
			b = gen.Doc(t, p)
		} else {
			b = gen.Edit(t, a, p)
			if o, ok := b.(map[string]val.V); ok && gen.Chance(t, "nullMember", 50) {
				o[gen.Pick(t, "nk", []string{"k", "n", "a"})] = nil
			}
		}
		return PairCase{A: val.JSON(a), B: val.JSON(b), Opts: opts}
	}
	if gen.Chance(t, "mergePrecision", 6) {
		// both CLIs accept -f merge together with -precision
		pc := genEqPair(t, []string{"list"}, true)
		for i := 0; i < 3; i++ {
			if _, ok := jdx.Precision(pc.Opts); ok {
				break
			}
			pc = genEqPair(t, []string{"list"}, true)
		}
		if _, ok := jdx.Precision(pc.Opts); ok {
			av, bv := val.MustParse(pc.A), val.MustParse(pc.B)
			return PairCase{A: val.JSON(stripNulls(av)), B: val.JSON(stripNulls(bv)), Opts: "merge+" + pc.Opts}
		}
	}
	if gen.Chance(t, "fromC01", 35) {
		return genPairCase(t, c05OptSets, nil)
	}
	return genEqPair(t, c05OptSets, true)
}

// ---- CLI leg

type CLIPairCase struct {
	A     string   `json:"a"`
	B     string   `json:"b"`
	Bin   string   `json:"bin"`   // jd-v2 | jd-top
	Flags []string `json:"flags"` // without file arguments
	Yaml  bool     `json:"yaml"`
	Stdin bool     `json:"stdin"` // the second document arrives on standard input
}

// flagOptions translates CLI flags into library options the way the README
// documents them.
func flagOptions(flags []string) (opts []jd.Option, format string, name string) {
	var parts []string
	prec := 0.0
	for i := 0; i < len(flags); i++ {
		f := flags[i]
		switch {
		case f == "-set":
			opts = append(opts, jd.SET)
			parts = append(parts, "set")
		case f == "-mset":
			opts = append(opts, jd.MULTISET)
			parts = append(parts, "mset")
		case strings.HasPrefix(f, "-setkeys="):
			ks := strings.Split(strings.TrimPrefix(f, "-setkeys="), ",")
			opts = append(opts, jd.SetKeys(ks...))
			parts = append(parts, "setkeys:"+strings.Join(ks, ","))
		case strings.HasPrefix(f, "-precision="):
			fmt.Sscanf(strings.TrimPrefix(f, "-precision="), "%g", &prec)
		case strings.HasPrefix(f, "-f="):
			format = strings.TrimPrefix(f, "-f=")
		}
	}
	if format == "merge" {
		opts = append(opts, jd.MERGE)
		parts = append(parts, "merge")
	}
	if prec != 0 {
		opts = append(opts, jd.Precision(prec))
		parts = append(parts, fmt.Sprintf("prec:%v", prec))
	}
	if len(parts) == 0 {
		parts = []string{"list"}
	}
	return opts, format, strings.Join(parts, "+")
}

func docText(v val.V, yaml bool) string {
	if yaml {
		return ref.YAMLEmit(v)
	}
	return val.JSON(v)
}

func checkC05CLI(c CLIPairCase, r *rec.Rec) error {
	if !haveCLI() {
		return inconclusive{"jd binaries not built"}
	}
	av, err := val.Parse(c.A)
	if err != nil {
		return fmt.Errorf("bad case: %v", err)
	}
	bv, err := val.Parse(c.B)
	if err != nil {
		return fmt.Errorf("bad case: %v", err)
	}
	opts, format, name := flagOptions(c.Flags)
	equal := jdx.NodeText(c.A).Equals(jdx.NodeText(c.B), opts...)
	bin := c.Bin
	var pre []string
	if c.Bin == "jd-top-v1" {
		// the top-level binary on the v1 library: equality is the v1 library's
		bin, pre = "jd-top", []string{"-v2=false"}
		md := v1Metadata(name)
		equal = v1Node(c.A).Equals(v1Node(c.B), md...)
		d1 := v1Node(c.A).Diff(v1Node(c.B), md...)
		var rerr error
		switch format {
		case "patch":
			_, rerr = d1.RenderPatch()
		case "merge":
			_, rerr = v1Node(c.A).Diff(v1Node(c.B), md...).RenderMerge()
		}
		if rerr != nil {
			r.Class("skipped:not-renderable(v1)")
			return nil
		}
	}
	// Where the chosen format cannot express the diff the CLI reports an
	// error (status 2); such cases are outside "0 or 1" and are skipped.
	d := jdx.NodeText(c.A).Diff(jdx.NodeText(c.B), opts...)
	switch format {
	case "patch":
		if _, err := d.RenderPatch(); err != nil {
			r.Class("skipped:not-renderable-as-patch")
			return nil
		}
	case "merge":
		if _, err := jdx.NodeText(c.A).Diff(jdx.NodeText(c.B), opts...).RenderMerge(); err != nil {
			r.Class("skipped:not-renderable-as-merge")
			return nil
		}
	}
	viol := rec.Violated
	if containsMagic(av, bv) {
		viol = func(f string, a ...interface{}) error { return rec.Known("D15", f, a...) }
	}
	dir, cleanup := caseDir()
	defer cleanup()
	ext := ".json"
	if c.Yaml {
		ext = ".yaml"
	}
	writeFile(dir, "a"+ext, docText(av, c.Yaml))
	writeFile(dir, "b"+ext, docText(bv, c.Yaml))
	args := append(append([]string{}, c.Flags...), "a"+ext, "b"+ext)
	var stdin *string
	if c.Stdin {
		args = args[:len(args)-1]
		text := docText(bv, c.Yaml)
		stdin = &text
	}
	if c.Yaml {
		args = append([]string{"-yaml"}, args...)
	}
	args = append(pre, args...)
	res := runCLI(bin, args, stdin, dir)
	if err := cliTrouble(res); err != nil {
		return err
	}
	want := 1
	if equal {
		want = 0
	}
	if res.Status != want {
		return viol("%s %s on a=%s b=%s exits %d, the inputs are %s under %s (want %d)\nstdout:\n%s\nstderr:\n%s",
			c.Bin, strings.Join(args, " "), c.A, c.B, res.Status, map[bool]string{true: "equal", false: "different"}[equal], name, want, res.Stdout, res.Stderr)
	}
	cls := []string{"bin=" + c.Bin, "opts=" + name, "format=" + format}
	if c.Yaml {
		cls = append(cls, "yaml")
	}
	if c.Stdin {
		cls = append(cls, "stdin")
	}
	if len(c.A) > 65536 {
		cls = append(cls, "line>64KB")
	}
	if equal && c.A != c.B {
		cls = append(cls, "equal-but-texts-differ")
	} else if !equal {
		cls = append(cls, "unequal")
	}
	r.Case(fmt.Sprintf("%s|%s|%s|%v|%v|%v", c.A, c.B, c.Bin, c.Flags, c.Yaml, c.Stdin), c.A != c.B, cls...)
	if c.A != c.B {
		r.Sample(c)
	}
	return nil
}

func optFlags(opts string) []string {
	var out []string
	// The binaries build their option list in a fixed order (set, mset,
	// setkeys) whatever the order of the flags: MULTISET before SET cannot
	// be said on the command line.
	opts = strings.Replace(opts, "mset+set", "set+mset", 1)
	for _, part := range strings.Split(opts, "+") {
		switch {
		case part == "set":
			out = append(out, "-set")
		case part == "mset":
			out = append(out, "-mset")
		case part == "merge":
			out = append(out, "-f=merge")
		case strings.HasPrefix(part, "setkeys:"):
			out = append(out, "-setkeys="+strings.TrimPrefix(part, "setkeys:"))
		case strings.HasPrefix(part, "prec:"):
			out = append(out, "-precision="+strings.TrimPrefix(part, "prec:"))
		}
	}
	return out
}

func genC05CLI(t *rapid.T) CLIPairCase {
	pc := genC05(t)
	if strings.HasPrefix(pc.Opts, "setkeys:id,k") {
		pc = genC05(t) // the multi-key option sets are decided in the library leg (D21 predicate)
		if strings.HasPrefix(pc.Opts, "setkeys:id,k") {
			pc.Opts = "list"
		}
	}
	c := CLIPairCase{A: pc.A, B: pc.B, Bin: gen.Pick(t, "bin", []string{"jd-v2", "jd-top", "jd-top-v1"})}
	c.Flags = optFlags(pc.Opts)
	if gen.Chance(t, "blanksAroundKeys", 60) {
		// the usage text allows blanks around the keys: "-setkeys id, name"
		for i, f := range c.Flags {
			if strings.HasPrefix(f, "-setkeys=") {
				c.Flags[i] = "-setkeys= " + strings.ReplaceAll(strings.TrimPrefix(f, "-setkeys="), ",", " , ") + " "
			}
		}
	}
	if !jdx.IsMerge(pc.Opts) {
		switch gen.Int(t, "format", 0, 5) {
		case 0:
			c.Flags = append(c.Flags, "-f=jd")
		case 1:
			if jdx.Reading(pc.Opts) == val.List {
				c.Flags = append(c.Flags, "-f=patch")
			}
		}
	}
	if gen.Chance(t, "color", 10) && !hasLongString(val.MustParse(c.A), 3000) {
		c.Flags = append(c.Flags, "-color")
	}
	c.Yaml = gen.Chance(t, "yaml", 20)
	c.Stdin = gen.Chance(t, "stdin", 25)
	if gen.Chance(t, "bigLine", 12) {
		// both documents get the same long member: equality is unchanged,
		// every line of the input is longer than 64 KB
		big := strings.Repeat("long line ", 7000)
		if av, bv := val.MustParse(c.A), val.MustParse(c.B); !val.IsVoid(av) && !val.IsVoid(bv) {
			c.A = val.JSON(map[string]val.V{"big": big, "doc": av})
			c.B = val.JSON(map[string]val.V{"big": big, "doc": bv})
		}
	}
	return c
}

func init() { Register("C05", "library", checkC05); Register("C05", "cli", checkC05CLI) }

func TestC05Library(t *testing.T) { RunRandom(t, "C05", "library", genC05, checkC05) }
func TestC05CLI(t *testing.T)     { RunRandom(t, "C05", "cli", genC05CLI, checkC05CLI) }

// ---- documents obtained from Patch

// PatchedCase: a' = Patch(A, A.Diff(X, PatchOpts)) is a document like any
// other; it is then compared and diffed with B under Opts.
type PatchedCase struct {
	A         string `json:"a"`
	X         string `json:"x"`
	PatchOpts string `json:"patch_opts"`
	B         string `json:"b"`
	Opts      string `json:"opts"`
}

func patchedDoc(c PatchedCase) (func() jd.JsonNode, val.V, error) {
	mk := func() jd.JsonNode {
		d := jdx.NodeText(c.A).Diff(jdx.NodeText(c.X), jdx.Options(c.PatchOpts)...)
		out := jdx.Patch(jdx.NodeText(c.A), d)
		if !out.OK() {
			return nil
		}
		return out.Node
	}
	n := mk()
	if n == nil {
		return nil, nil, fmt.Errorf("precondition: the diff applies (C01)")
	}
	v, err := val.Parse(n.Json())
	if err != nil {
		return nil, nil, err
	}
	return mk, v, nil
}

func checkC05Patched(c PatchedCase, r *rec.Rec) error {
	mk, pv, err := patchedDoc(c)
	if err != nil {
		r.Class("skipped:" + err.Error())
		return nil
	}
	bv, err := val.Parse(c.B)
	if err != nil {
		return fmt.Errorf("bad case: %v", err)
	}
	if containsMagic(pv, bv) {
		r.Class("skipped:magic-number")
		return nil
	}
	opts := jdx.Options(c.Opts)
	equal := mk().Equals(jdx.NodeText(c.B), opts...)
	var d jd.Diff
	if msg, p := jdx.Guard(func() { d = mk().Diff(jdx.NodeText(c.B), opts...) }); p {
		return rec.Violated("Diff panicked on a patched document: %s", msg)
	}
	if (len(d) == 0) != equal {
		return rec.Violated("a' = Patch(%s, diff to %s under %s) = %s; under %s Equals(a', %s) = %v but a'.Diff(b) has %d hunks:\n%s", c.A, c.X, c.PatchOpts, val.JSON(pv), c.Opts, c.B, equal, len(d), d.Render())
	}
	equalBack := jdx.NodeText(c.B).Equals(mk(), opts...)
	d2 := jdx.NodeText(c.B).Diff(mk(), opts...)
	if (len(d2) == 0) != equalBack || equalBack != equal {
		return rec.Violated("a' = %s (from Patch), b = %s under %s: Equals(a',b)=%v Equals(b,a')=%v, b.Diff(a') has %d hunks", val.JSON(pv), c.B, c.Opts, equal, equalBack, len(d2))
	}
	cls := []string{"opts=" + c.Opts, "patch-opts=" + c.PatchOpts}
	if equal {
		cls = append(cls, "equal")
	} else {
		cls = append(cls, "unequal")
	}
	r.Case(fmt.Sprintf("%v", c), c.A != c.X, cls...)
	if c.A != c.X {
		r.Sample(c)
	}
	return nil
}

func genPatchedCase(t *rapid.T) PatchedCase {
	popts := gen.Pick(t, "patchOpts", []string{"list", "list", "set", "mset", "setkeys:id", "merge"})
	pc := genPairCase(t, []string{popts}, func(p *gen.Profile) { p.VoidRoot = false; p.ArrayBias = 50 })
	opts := gen.Pick(t, "opts", []string{"list", "set", "mset", "setkeys:id", "merge", "set+merge"})
	if gen.Chance(t, "sameOpts", 40) {
		opts = popts
	}
	xv := val.MustParse(pc.B)
	var b val.V
	switch gen.Int(t, "bKind", 0, 3) {
	case 0:
		b = val.Clone(xv)
	case 1:
		b = gen.Permute(t, xv, 60)
	case 2:
		if val.IsVoid(xv) {
			b = gen.Doc(t, gen.Profile{})
		} else {
			b = gen.Edit(t, xv, profileFor(opts))
		}
	default:
		b = val.MustParse(pc.A)
	}
	if jdx.IsMerge(opts) {
		b = stripNulls(b)
	}
	if ks := jdx.SetKeysOf(opts); ks != nil && !val.IsVoid(b) {
		b = gen.Keyify(b, ks)
	}
	return PatchedCase{A: pc.A, X: pc.B, PatchOpts: popts, B: val.JSON(b), Opts: opts}
}

func init() { Register("C05", "patched", checkC05Patched) }

func TestC05Patched(t *testing.T) { RunRandom(t, "C05", "patched", genPatchedCase, checkC05Patched) }
