package props

import (
	"fmt"
	"math"
	"testing"

	"pgregory.net/rapid"

	"verifjd/gen"
	"verifjd/jdx"
	"verifjd/rec"
	"verifjd/ref"
	"verifjd/val"
)

// C06 — list diffs are minimal (LCS) and carry adjacent context.

// C06Case: two arrays A and B (JSON), embedded by Wrap: "" (root), "key"
// ({"k":A}), "index" (["L",A,"R"]), "deep" ({"k":[A0.., A]}).
// Focus != nil marks an "inner change" case: B is A with the container at
// that position changed inside.
type C06Case struct {
	A     string `json:"a"`
	B     string `json:"b"`
	Wrap  string `json:"wrap"`
	Focus *int   `json:"focus,omitempty"`
	// Opts is "" (no option) or "prec:<eps>" on documents whose numbers are
	// whole, so that the precision changes nothing about which elements
	// are equal: the diff must have the same shape with and without it.
	Opts string `json:"opts,omitempty"`
}

func c06wrap(v val.V, wrap string) (val.V, []ref.PathElem) {
	switch wrap {
	case "key":
		return map[string]val.V{"k": v}, []ref.PathElem{{Kind: ref.Key, Key: "k"}}
	case "index":
		return []val.V{"L", v, "R"}, []ref.PathElem{{Kind: ref.Index, Index: 1}}
	case "deep":
		return map[string]val.V{"k": []val.V{map[string]val.V{"x": v}}},
			[]ref.PathElem{{Kind: ref.Key, Key: "k"}, {Kind: ref.Index, Index: 0}, {Kind: ref.Key, Key: "x"}}
	}
	return v, nil
}

func pathHasPrefix(p, prefix []ref.PathElem) bool {
	if len(p) < len(prefix) {
		return false
	}
	for i, e := range prefix {
		if p[i].Kind != e.Kind || p[i].Key != e.Key || p[i].Index != e.Index {
			return false
		}
	}
	return true
}

func sameKindContainers(x, y val.V) bool {
	switch x.(type) {
	case []val.V:
		_, ok := y.([]val.V)
		return ok
	case map[string]val.V:
		_, ok := y.(map[string]val.V)
		return ok
	}
	return false
}

func isScalar(v val.V) bool {
	switch v.(type) {
	case []val.V, map[string]val.V:
		return false
	}
	return true
}

func checkC06(c C06Case, r *rec.Rec) error {
	av, err := val.Parse(c.A)
	if err != nil {
		return fmt.Errorf("bad case: %v", err)
	}
	bv, err := val.Parse(c.B)
	if err != nil {
		return fmt.Errorf("bad case: %v", err)
	}
	aArr, ok1 := av.([]val.V)
	bArr, ok2 := bv.([]val.V)
	if !ok1 || !ok2 {
		return fmt.Errorf("bad case: arrays wanted")
	}
	da, prefix := c06wrap(av, c.Wrap)
	db, _ := c06wrap(bv, c.Wrap)

	d, pmsg, panicked := jdx.DiffSafe(jdx.Node(da), jdx.Node(db), jdx.Options(c.Opts))
	if panicked {
		return rec.Violated("Diff panicked: %s", pmsg)
	}
	hs, err := jdx.ToHunks(d)
	if err != nil {
		return rec.Violated("diff holds an unreadable node: %v", err)
	}

	// Independent optimum.
	ca := make([]string, len(aArr))
	cb := make([]string, len(bArr))
	allScalar := true
	for i, e := range aArr {
		ca[i] = val.Canon(e, val.List)
		allScalar = allScalar && isScalar(e)
	}
	for i, e := range bArr {
		cb[i] = val.Canon(e, val.List)
		allScalar = allScalar && isScalar(e)
	}
	lcs := ref.LCSLen(ca, cb)

	// Accounting on the focus array and context on every index hunk.
	sumRemove, sumAdd := 0, 0
	outer := 0
	for k, h := range hs {
		if h.Merge {
			return rec.Violated("hunk %d of a list-mode diff is a merge hunk", k)
		}
		if len(h.Path) == 0 {
			if len(prefix) == 0 {
				return rec.Violated("two arrays were replaced wholesale: %s", h)
			}
			return rec.Violated("hunk %d leaves the wrapped array: %s", k, h)
		}
		if !pathHasPrefix(h.Path, prefix) {
			return rec.Violated("hunk %d is outside the only array that differs: %s", k, h)
		}
		last := h.Path[len(h.Path)-1]
		if last.Kind == ref.Index {
			if len(h.Before) != 1 || len(h.After) != 1 {
				return rec.Violated("hunk %d edits an array position with %d before and %d after context lines: %s", k, len(h.Before), len(h.After), h)
			}
		}
		if len(h.Path) == len(prefix)+1 {
			if last.Kind != ref.Index {
				return rec.Violated("hunk %d addresses the array with a non-index element: %s", k, h)
			}
			outer++
			sumRemove += len(h.Remove)
			sumAdd += len(h.Add)
			if len(h.Remove) == 0 && len(h.Add) == 0 {
				return rec.Violated("hunk %d is empty: %s", k, h)
			}
		}
	}
	if allScalar {
		if sumRemove != len(aArr)-lcs || sumAdd != len(bArr)-lcs {
			return rec.Violated("not minimal: removes %d adds %d, optimum removes %d adds %d (LCS %d)", sumRemove, sumAdd, len(aArr)-lcs, len(bArr)-lcs, lcs)
		}
	} else {
		if sumRemove > len(aArr)-lcs || sumAdd > len(bArr)-lcs {
			return rec.Violated("not minimal: removes %d adds %d, optimum removes %d adds %d (LCS %d)", sumRemove, sumAdd, len(aArr)-lcs, len(bArr)-lcs, lcs)
		}
	}
	if lcs == 0 {
		// Nothing of a occurs in b, so whatever alignment the LCS picks the
		// walk is positional: a[i] faces b[i]. Same-position containers of the
		// same kind must be recursed into, everything else is replaced.
		wantRemove, wantAdd := 0, 0
		for i := range aArr {
			if i >= len(bArr) || !sameKindContainers(aArr[i], bArr[i]) {
				wantRemove++
			}
		}
		for i := range bArr {
			if i >= len(aArr) || !sameKindContainers(aArr[i], bArr[i]) {
				wantAdd++
			}
		}
		if sumRemove != wantRemove || sumAdd != wantAdd {
			return rec.Violated("same-position containers of the same kind are replaced instead of recursed into: the array hunks remove %d and add %d elements, positional pairing needs %d and %d\ndiff:\n%s", sumRemove, sumAdd, wantRemove, wantAdd, d.Render())
		}
	}
	if c.Focus != nil {
		// Same array, one container changed inside: recursion, no replacement.
		if len(hs) == 0 {
			return rec.Violated("no hunk for an inner change")
		}
		through := append(append([]ref.PathElem{}, prefix...), ref.PathElem{Kind: ref.Index, Index: *c.Focus})
		for k, h := range hs {
			if !pathHasPrefix(h.Path, through) || len(h.Path) <= len(through) {
				return rec.Violated("hunk %d does not recurse into the changed container at %d: %s", k, *c.Focus, h)
			}
		}
	}

	// Context equals the neighbours (or the boundary) in the running
	// document; the reference interpreter checks exactly that, and the
	// script must lead to b.
	cur := val.Clone(da)
	for k, h := range hs {
		nxt, err := ref.Apply(cur, h)
		if err != nil {
			return rec.Violated("hunk %d does not fit the document it was made for (%v): %s", k, err, h)
		}
		cur = nxt
	}
	if !val.Equal(cur, db, val.List) {
		return rec.Violated("hunks lead to %s, not to %s", val.JSON(cur), val.JSON(db))
	}

	minLen := len(aArr)
	if len(bArr) < minLen {
		minLen = len(bArr)
	}
	partial := lcs > 0 && lcs < minLen
	nontrivial := partial || len(hs) >= 2 || c.Focus != nil
	cls := []string{"wrap=" + c.Wrap}
	if c.Opts != "" {
		cls = append(cls, "with-precision-option")
	}
	if len(aArr) > 256 && len(bArr) > 256 {
		cls = append(cls, "both-longer-than-256")
	}
	if partial {
		cls = append(cls, "partial-overlap")
	}
	if len(hs) >= 2 {
		cls = append(cls, "multi-hunk")
	}
	if !allScalar {
		cls = append(cls, "container-elements")
	}
	if c.Focus != nil {
		cls = append(cls, "inner-change")
	}
	if lcs == 0 && len(aArr) > 0 && len(bArr) > 0 {
		cls = append(cls, "nothing-common(positional)")
		for i := range aArr {
			if i < len(bArr) && sameKindContainers(aArr[i], bArr[i]) {
				cls = append(cls, "positional-with-same-kind-pair")
				nontrivial = true
				break
			}
		}
	}
	if outer > 0 && len(hs) > outer {
		cls = append(cls, "outer+inner-hunks")
	}
	r.Case(c.A+"|"+c.B+"|"+c.Wrap+"|"+c.Opts, nontrivial, cls...)
	if nontrivial {
		r.Sample(c)
	}
	return nil
}

func init() { Register("C06", "random", checkC06); Register("C06", "exhaustive", checkC06) }

var c06symbols = []val.V{0.0, 1.0, "a", true, nil, "1"}

func c06enum(alpha, maxLen int) []string {
	var out []string
	var rec func(cur []val.V)
	rec = func(cur []val.V) {
		out = append(out, val.JSON(cur))
		if len(cur) == maxLen {
			return
		}
		for s := 0; s < alpha; s++ {
			rec(append(append([]val.V{}, cur...), c06symbols[s]))
		}
	}
	rec([]val.V{})
	return out
}

func TestC06Exhaustive(t *testing.T) {
	alpha, maxLen := 3, 5
	wraps := []string{"", "key", "index"}
	if thorough() {
		alpha, maxLen = 4, 6
	}
	arrs := c06enum(alpha, maxLen)
	e := NewEnum(t, "C06", "exhaustive", checkC06)
	defer e.Done()
	e.r.Notes["alphabet"] = alpha
	e.r.Notes["max_len"] = maxLen
	e.r.Notes["arrays"] = len(arrs)
	for i, a := range arrs {
		if !e.Mine() {
			continue
		}
		for j, b := range arrs {
			// thorough: the full square at the root, nested embeddings on a
			// fixed residue class of pairs.
			for wi, w := range wraps {
				if thorough() && wi > 0 && (i+j)%7 != 0 {
					continue
				}
				e.Do(C06Case{A: a, B: b, Wrap: w})
			}
		}
	}
}

func genC06(t *rapid.T) C06Case {
	c := genC06base(t)
	if gen.Chance(t, "precisionOpt", 15) && wholeNumbersOnly(c.A) && wholeNumbersOnly(c.B) {
		c.Opts = "prec:0.1"
	}
	return c
}

func wholeNumbersOnly(text string) bool {
	ok := true
	var walk func(v val.V)
	walk = func(v val.V) {
		switch x := v.(type) {
		case float64:
			if x != math.Trunc(x) {
				ok = false
			}
		case []val.V:
			for _, e := range x {
				walk(e)
			}
		case map[string]val.V:
			for _, e := range x {
				walk(e)
			}
		}
	}
	walk(val.MustParse(text))
	return ok
}

func genC06base(t *rapid.T) C06Case {
	wrap := gen.Pick(t, "wrap", []string{"", "key", "index", "deep"})
	mode := gen.Int(t, "mode", 0, 3)
	if mode == 3 {
		// disjoint sides: every element of a carries "A", every element of b "B"
		side := func(tag string) []val.V {
			n := gen.Int(t, "n"+tag, 0, 6)
			out := make([]val.V, n)
			for i := range out {
				switch gen.Int(t, "kind"+tag, 0, 2) {
				case 0:
					out[i] = tag + fmt.Sprint(gen.Int(t, "s", 0, 2))
				case 1:
					out[i] = map[string]val.V{"side": tag, "x": float64(gen.Int(t, "x", 0, 2)), gen.Pick(t, "k", []string{"p", "q"}): float64(gen.Int(t, "y", 0, 1))}
				default:
					l := []val.V{tag}
					for k := gen.Int(t, "len", 0, 3); k > 0; k-- {
						l = append(l, float64(gen.Int(t, "e", 0, 2)))
					}
					out[i] = l
				}
			}
			return out
		}
		return C06Case{A: val.JSON(side("A")), B: val.JSON(side("B")), Wrap: wrap}
	}
	switch mode {
	case 0: // long scalar arrays over small alphabets
		if gen.Chance(t, "codeTwins", 3) {
			a, b := twinArrays(t)
			return C06Case{A: val.JSON(a), B: val.JSON(b), Wrap: wrap}
		}
		alpha := gen.Int(t, "alpha", 2, 6)
		n := gen.Int(t, "n", 0, 30)
		if gen.Chance(t, "long", 8) {
			n = gen.Int(t, "nLong", 60, 160)
		}
		if gen.Chance(t, "longRun", 6) {
			// a long run of one value whose length changes or which is interrupted
			run := gen.Int(t, "run", 28, 70)
			a := []val.V{1.0}
			for i := 0; i < run; i++ {
				a = append(a, 0.0)
			}
			a = append(a, 2.0)
			b := []val.V{1.0}
			run2 := run + gen.Pick(t, "delta", []int{-3, -1, 1, 1, 2})
			for i := 0; i < run2; i++ {
				b = append(b, 0.0)
			}
			b = append(b, 2.0)
			if gen.Chance(t, "interrupt", 35) {
				k := gen.Int(t, "at", 1, len(b)-2)
				b = append(append(append([]val.V{}, b[:k]...), 3.0), b[k:]...)
			}
			return C06Case{A: val.JSON(a), B: val.JSON(b), Wrap: wrap}
		}
		if gen.Rare(t, "veryLong", 2) {
			// longer than any plausible block size, edited at both ends
			n = gen.Int(t, "nVeryLong", 300, 700*gen.Scale())
			a := make([]val.V, n)
			for i := range a {
				a[i] = float64(i % gen.Int(t, "mod", 2, 400))
			}
			b := append([]val.V{"head"}, a...)
			if gen.Chance(t, "dropTail", 50) {
				b = b[:len(b)-1]
			}
			b = append(b, "tail")
			if gen.Chance(t, "rotate", 40) {
				k := gen.Int(t, "rot", 1, 5)
				b = append(append([]val.V{}, a[k:]...), a[:k]...)
			}
			return C06Case{A: val.JSON(a), B: val.JSON(b), Wrap: wrap}
		}
		a := make([]val.V, n)
		for i := range a {
			a[i] = c06symbols[gen.Int(t, "sym", 0, alpha-1)]
		}
		var b val.V
		if gen.Int(t, "indep", 0, 9) < 3 {
			m := gen.Int(t, "m", 0, 30)
			bb := make([]val.V, m)
			for i := range bb {
				bb[i] = c06symbols[gen.Int(t, "sym", 0, alpha-1)]
			}
			b = bb
		} else {
			p := gen.Profile{ScalarArr: true, MaxArr: 8}
			b = val.Clone(a)
			for k := gen.Int(t, "edits", 1, 5); k > 0; k-- {
				b = c06editTop(t, b.([]val.V), p)
			}
		}
		return C06Case{A: val.JSON(a), B: val.JSON(b), Wrap: wrap}
	case 1: // arrays whose elements are containers, arbitrary edits at the top
		if gen.Chance(t, "deepChangeThenEdit", 12) {
			// a same-position container changed two or three levels down, the
			// elements next to it edited as well
			deep := [][2]val.V{
				{map[string]val.V{"x": map[string]val.V{"y": 1.0}}, map[string]val.V{"x": map[string]val.V{"y": 2.0}}},
				{[]val.V{[]val.V{1.0}}, []val.V{[]val.V{1.0, 3.0}}},
				{map[string]val.V{"m": []val.V{1.0, 2.0}}, map[string]val.V{"m": []val.V{1.0}}},
				{[]val.V{map[string]val.V{"k": []val.V{1.0}}}, []val.V{map[string]val.V{"k": []val.V{2.0}}}},
				{map[string]val.V{"x": map[string]val.V{"y": map[string]val.V{"z": 1.0}}, "w": 0.0}, map[string]val.V{"x": map[string]val.V{"y": map[string]val.V{"z": 2.0}}, "w": 0.0}},
			}
			pr := gen.Pick(t, "deepPair", deep)
			var a, b []val.V
			for i := gen.Int(t, "lead", 0, 2); i > 0; i-- {
				a, b = append(a, float64(i)), append(b, float64(i))
			}
			if gen.Chance(t, "editBefore", 40) {
				a, b = append(a, "old"), append(b, "new")
			}
			a, b = append(a, val.Clone(pr[0])), append(b, val.Clone(pr[1]))
			switch gen.Int(t, "after", 0, 3) {
			case 0:
				a, b = append(a, 1.0), append(b, 2.0)
			case 1:
				a = append(a, 1.0)
			case 2:
				b = append(b, 2.0)
			default:
				a, b = append(a, 1.0, 7.0), append(b, 7.0)
			}
			if gen.Chance(t, "tail", 50) {
				a, b = append(a, "t"), append(b, "t")
			}
			return C06Case{A: val.JSON(a), B: val.JSON(b), Wrap: wrap}
		}
		p := gen.Profile{MaxDepth: 2, MaxArr: 7, ArrayBias: 30}
		a := gen.Array(t, p, 0).([]val.V)
		b := val.Clone(a).([]val.V)
		for k := gen.Int(t, "edits", 1, 4); k > 0; k-- {
			b = c06editTop(t, b, p)
		}
		return C06Case{A: val.JSON(a), B: val.JSON(b), Wrap: wrap}
	default: // one container element changed inside
		if gen.Chance(t, "longInLong", 4) {
			// a long array inside a long array: scalars on both sides of
			// the one element that changes, the change itself deep inside
			// another long array
			nOuter := gen.Int(t, "nOuter", 60, 180*gen.Scale())
			nInner := gen.Int(t, "nInner", 60, 180*gen.Scale())
			outer := make([]val.V, nOuter)
			outerMod := gen.Int(t, "outerMod", 1, 7)
			for i := range outer {
				outer[i] = float64(i % outerMod)
			}
			inner := make([]val.V, nInner)
			for i := range inner {
				inner[i] = float64(i % 5)
			}
			inner2 := val.Clone(inner).([]val.V)
			inner2[gen.Int(t, "innerAt", 0, nInner-1)] = "changed"
			if gen.Chance(t, "innerGrows", 40) {
				inner2 = append(inner2, "more")
			}
			var e1, e2 val.V = inner, inner2
			switch gen.Int(t, "holder", 0, 2) {
			case 1:
				e1, e2 = map[string]val.V{"l": inner, "z": 1.0}, map[string]val.V{"l": inner2, "z": 1.0}
			case 2:
				e1, e2 = []val.V{"h", map[string]val.V{"l": inner}}, []val.V{"h", map[string]val.V{"l": inner2}}
			}
			k := gen.Int(t, "focusAt", 0, nOuter)
			a2 := append(append(append([]val.V{}, outer[:k]...), e1), outer[k:]...)
			b2 := append(append(append([]val.V{}, outer[:k]...), e2), outer[k:]...)
			return C06Case{A: val.JSON(a2), B: val.JSON(b2), Wrap: wrap, Focus: &k}
		}
		p := gen.Profile{MaxDepth: 2, MaxArr: 6}
		a := gen.Array(t, p, 0).([]val.V)
		k := gen.Int(t, "focusAt", 0, len(a))
		var elem, elem2 val.V
		if rapid.Bool().Draw(t, "focusIsArray") {
			elem = []val.V{"f0", float64(gen.Int(t, "f1", 0, 3))}
			elem2 = []val.V{"f0", "changed", float64(gen.Int(t, "f2", 0, 3))}
		} else {
			elem = map[string]val.V{"f": "focus", "v": float64(gen.Int(t, "f1", 0, 3))}
			elem2 = map[string]val.V{"f": "focus", "v": "changed"}
		}
		if gen.Chance(t, "reappears", 50) {
			// the changed container becomes equal to a container that stays
			// further along (or further back) in the array, a scalar between them
			twin := val.Clone(elem2)
			if k < len(a) || len(a) == 0 {
				a = append(append(append([]val.V{}, a[:k]...), "sep"), append(a[k:], twin)...)
			} else {
				a = append([]val.V{twin, "sep"}, a...)
				k += 2
			}
		}
		a2 := append(append(append([]val.V{}, a[:k]...), elem), a[k:]...)
		b2 := append(append(append([]val.V{}, a[:k]...), elem2), a[k:]...)
		return C06Case{A: val.JSON(a2), B: val.JSON(b2), Wrap: wrap, Focus: &k}
	}
}

// c06editTop edits the top-level array only.
func c06editTop(t *rapid.T, x []val.V, p gen.Profile) []val.V {
	n := len(x)
	newElem := func() val.V {
		if p.ScalarArr {
			return c06symbols[gen.Int(t, "sym", 0, 5)]
		}
		return gen.Value(t, p, 1)
	}
	op := gen.Int(t, "op", 0, 5)
	switch {
	case op == 0 || n == 0:
		i := gen.Int(t, "at", 0, n)
		out := append([]val.V{}, x[:i]...)
		out = append(out, newElem())
		return append(out, x[i:]...)
	case op == 1:
		i := gen.Int(t, "at", 0, n-1)
		out := append([]val.V{}, x[:i]...)
		return append(out, x[i+1:]...)
	case op == 2:
		i := gen.Int(t, "at", 0, n-1)
		x[i] = newElem()
		return x
	case op == 3:
		i := gen.Int(t, "at", 0, n-1)
		j := gen.Int(t, "to", 0, n)
		e := val.Clone(x[i])
		out := append([]val.V{}, x[:j]...)
		out = append(out, e)
		return append(out, x[j:]...)
	case op == 4 && n >= 2:
		i := gen.Int(t, "at", 0, n-2)
		x[i], x[i+1] = x[i+1], x[i]
		return x
	default:
		i := gen.Int(t, "at", 0, n-1)
		l := gen.Int(t, "len", 1, n-i)
		out := append([]val.V{}, x[:i]...)
		return append(out, x[i+l:]...)
	}
}

func TestC06Random(t *testing.T) {
	RunRandom(t, "C06", "random", genC06, checkC06)
}
