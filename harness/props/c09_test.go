package props

import (
	"fmt"
	"regexp"
	"strings"
	"testing"

	jd "github.com/josephburnett/jd/v2"
	"pgregory.net/rapid"

	"verifjd/gen"
	"verifjd/jdx"
	"verifjd/rec"
	"verifjd/ref"
	"verifjd/val"
)

// C09 — RFC 6902 output means the same as the native diff.

var numberLikeKey = regexp.MustCompile(`^[+-]?[0-9]{1,18}$`)
var greyZoneKey = regexp.MustCompile(`^[+-]?[0-9]{19,}$`)

// keyExpressibility classifies the keys on the paths of a diff.
func keyExpressibility(hs []ref.Hunk) (mustRefuse, grey bool) {
	for _, h := range hs {
		for _, e := range h.Path {
			if e.Kind != ref.Key {
				continue
			}
			if e.Key == "-" || numberLikeKey.MatchString(e.Key) {
				mustRefuse = true
			}
			if greyZoneKey.MatchString(e.Key) {
				grey = true
			}
		}
	}
	return
}

// wellFormed6902 checks the shape of a JSON Patch document restricted to
// the ops jd writes.
func wellFormed6902(p val.V) error {
	ops, ok := p.([]val.V)
	if !ok {
		return fmt.Errorf("not a JSON array")
	}
	for i, o := range ops {
		m, ok := o.(map[string]val.V)
		if !ok {
			return fmt.Errorf("op %d is not an object", i)
		}
		name, ok := m["op"].(string)
		if !ok {
			return fmt.Errorf("op %d has no string op", i)
		}
		if name != "add" && name != "remove" && name != "test" {
			return fmt.Errorf("op %d is %q", i, name)
		}
		ps, ok := m["path"].(string)
		if !ok {
			return fmt.Errorf("op %d has no string path", i)
		}
		if _, err := ref.ParsePointer(ps); err != nil {
			return fmt.Errorf("op %d: %v", i, err)
		}
		if _, has := m["value"]; !has && name != "remove" {
			return fmt.Errorf("op %d (%s) has no value", i, name)
		}
	}
	return nil
}

func patchClasses(p val.V) (cls []string, nontrivial bool) {
	ops, _ := p.([]val.V)
	addsAt := map[string]int{}
	tests, removes := 0, 0
	for _, o := range ops {
		m := o.(map[string]val.V)
		name, _ := m["op"].(string)
		ps, _ := m["path"].(string)
		switch name {
		case "add":
			addsAt[ps]++
		case "test":
			tests++
		case "remove":
			removes++
		}
		if strings.Contains(ps, "~0") || strings.Contains(ps, "~1") {
			cls = append(cls, "escaped-token")
			nontrivial = true
		}
	}
	if tests > removes {
		cls = append(cls, "context-test")
		nontrivial = true
	}
	for _, n := range addsAt {
		if n >= 2 {
			cls = append(cls, "multi-add-at-one-pointer")
			nontrivial = true
		}
	}
	return dedupStrings(cls), nontrivial
}

// checkC09Refusal: diffs made under SET / MULTISET / SetKeys address array
// members through {} / [] / {"k":v} path elements, which no JSON Pointer can
// express: RenderPatch must refuse them (an error), never print a patch.
func checkC09Refusal(c PairCase, r *rec.Rec) error {
	d, pmsg, panicked := jdx.DiffSafe(jdx.NodeText(c.A), jdx.NodeText(c.B), jdx.Options(c.Opts))
	if panicked {
		return rec.Violated("Diff panicked: %s", pmsg)
	}
	hs, err := jdx.ToHunks(d)
	if err != nil {
		return rec.Violated("diff holds an unreadable node: %v", err)
	}
	setPath := false
	for _, h := range hs {
		for _, e := range h.Path {
			if e.Kind != ref.Key && e.Kind != ref.Index {
				setPath = true
			}
		}
	}
	var ptext string
	var perr error
	if msg, p := jdx.Guard(func() { ptext, perr = jdx.NodeText(c.A).Diff(jdx.NodeText(c.B), jdx.Options(c.Opts)...).RenderPatch() }); p {
		return rec.Violated("RenderPatch panicked: %s", msg)
	}
	if setPath && perr == nil {
		return rec.Violated("the diff addresses set members (%s) but RenderPatch printed a JSON Patch instead of refusing:\n%s\nnative diff:\n%s", c.Opts, ptext, d.Render())
	}
	cls := []string{"opts=" + c.Opts}
	if setPath {
		cls = append(cls, "refused-set-path")
	}
	r.Case(c.A+"|"+c.B+"|"+c.Opts, setPath, cls...)
	if setPath {
		r.Sample(c)
	}
	return nil
}

func checkC09(c TargetCase, r *rec.Rec) error {
	av, err := val.Parse(c.A)
	if err != nil {
		return fmt.Errorf("bad case: %v", err)
	}
	bv, err := val.Parse(c.B)
	if err != nil {
		return fmt.Errorf("bad case: %v", err)
	}
	cv, err := val.Parse(c.C)
	if err != nil {
		return fmt.Errorf("bad case: %v", err)
	}
	mk := func() jd.Diff { return jdx.NodeText(c.A).Diff(jdx.NodeText(c.B)) }
	d, pmsg, panicked := jdx.DiffSafe(jdx.NodeText(c.A), jdx.NodeText(c.B), nil)
	if panicked {
		return rec.Violated("Diff panicked: %s", pmsg)
	}
	hs, err := jdx.ToHunks(d)
	if err != nil {
		return rec.Violated("diff holds an unreadable node: %v", err)
	}
	native := d.Render()
	var ptext string
	var perr error
	if msg, p := jdx.Guard(func() { ptext, perr = mk().RenderPatch() }); p {
		return rec.Violated("RenderPatch panicked: %s", msg)
	}
	mustRefuse, grey := keyExpressibility(hs)
	if mustRefuse {
		if perr == nil {
			return rec.Violated("a path holds a key that looks like a number or is \"-\" but RenderPatch did not refuse:\n%s\nnative diff:\n%s", ptext, native)
		}
		r.Case(c.A+"|"+c.B, false, "refused")
		return nil
	}
	if perr != nil {
		if grey {
			r.Case(c.A+"|"+c.B, false, "grey-zone-refused")
			return nil
		}
		return rec.Violated("RenderPatch refuses an expressible diff: %v\nnative diff:\n%s", perr, native)
	}
	pv, err := val.Parse(ptext)
	if err != nil {
		return rec.Violated("RenderPatch output is not JSON: %v\n%s", err, ptext)
	}
	if err := wellFormed6902(pv); err != nil {
		return rec.Violated("RenderPatch output is not a well-formed JSON Patch: %v\n%s", err, ptext)
	}
	// an independent evaluation on a yields b
	got, err := ref.Patch6902(av, pv)
	if err != nil {
		return rec.Violated("the rendered JSON Patch does not apply to a under RFC 6902: %v\npatch: %s\nnative diff:\n%s", err, ptext, native)
	}
	if !val.Equal(got, bv, val.List) {
		return rec.Violated("the rendered JSON Patch turns a into %s, not into b = %s\npatch: %s\nnative diff:\n%s", val.JSON(got), c.B, ptext, native)
	}
	cls, nontrivial := patchClasses(pv)
	cls = append(cls, "rendered")
	// wherever the native diff applies, the JSON Patch applies with the same result
	out := jdx.Patch(jdx.NodeText(c.C), mk())
	if out.OK() {
		want, err := val.Parse(out.Node.Json())
		if err != nil {
			return rec.Violated("native result unreadable: %v", err)
		}
		got, err := ref.Patch6902(cv, pv)
		if err != nil {
			return rec.Violated("the native diff applies to %s but the JSON Patch does not (RFC 6902: %v)\npatch: %s\nnative diff:\n%s", c.C, err, ptext, native)
		}
		if !val.Equal(got, want, val.List) {
			return rec.Violated("on %s the native diff gives %s, the JSON Patch gives %s\npatch: %s\nnative diff:\n%s", c.C, val.JSON(want), val.JSON(got), ptext, native)
		}
		cls = append(cls, "native-applies")
		if c.C != c.A {
			cls = append(cls, "native-applies-on-c!=a")
		}
	} else {
		cls = append(cls, "native-rejects")
	}
	r.Case(c.A+"|"+c.B+"|"+c.C, nontrivial, cls...)
	if nontrivial {
		r.Sample(c)
	}
	return nil
}

func genListPairNasty(t *rapid.T) (val.V, val.V, gen.Profile) {
	p := gen.Profile{ArrayBias: 50, MaxArr: 7}
	switch gen.Int(t, "keyProfile", 0, 9) {
	case 0, 1, 2, 3:
		p.NastyKeys = true
	case 4:
		p.NastyKeys = true
		p.Payload = true
	}
	a := gen.Doc(t, p)
	var b val.V
	if gen.Chance(t, "independent", 8) {
		b = gen.Doc(t, p)
	} else {
		b = gen.EditN(t, a, p, 1, 5)
	}
	if gen.Chance(t, "deep", 15) {
		a, b = gen.DeepPair(t, a, b, p)
	}
	return a, b, p
}

func genC09(t *rapid.T) TargetCase {
	a, b, p := genListPairNasty(t)
	if gen.Chance(t, "voidSide", 3) {
		if gen.Chance(t, "voidA", 50) {
			a = val.Void
		} else {
			b = val.Void
		}
	}
	c := TargetCase{A: val.JSON(a), B: val.JSON(b), Opts: "list"}
	d, _, panicked := jdx.DiffSafe(jdx.Node(a), jdx.Node(b), nil)
	var hs []ref.Hunk
	if !panicked {
		hs, _ = jdx.ToHunks(d)
	}
	tv, how := drawTarget(t, a, b, hs, p)
	c.C, c.How = val.JSON(tv), how
	return c
}

func init() { Register("C09", "random", checkC09); Register("C09", "refusal", checkC09Refusal) }

func TestC09Random(t *testing.T) { RunRandom(t, "C09", "random", genC09, checkC09) }

func TestC09Refusal(t *testing.T) {
	RunRandom(t, "C09", "refusal", func(t *rapid.T) PairCase {
		return genPairCase(t, []string{"set", "mset", "setkeys:id"}, nil)
	}, checkC09Refusal)
}
