package props

import (
	"fmt"
	"regexp"
	"strings"
	"testing"

	jd "github.com/josephburnett/jd/v2"
	"pgregory.net/rapid"

	"verifjd/gen"
	"verifjd/jdx"
	"verifjd/rec"
	"verifjd/ref"
	"verifjd/val"
)

// C09 — RFC 6902 output means the same as the native diff.

var numberLikeKey = regexp.MustCompile(`^[+-]?[0-9]{1,18}$`)
var greyZoneKey = regexp.MustCompile(`^[+-]?[0-9]{19,}$`)

// keyExpressibility classifies the keys on the paths of a diff.
func keyExpressibility(hs []ref.Hunk) (mustRefuse, grey bool) {
	for _, h := range hs {
		for _, e := range h.Path {
			if e.Kind != ref.Key {
				continue
			}
			if e.Key == "-" || numberLikeKey.MatchString(e.Key) {
				mustRefuse = true
			}
			if greyZoneKey.MatchString(e.Key) {
				grey = true
			}
		}
	}
	return
}

// wellFormed6902 checks the shape of a JSON Patch document restricted to
// the ops jd writes.
func wellFormed6902(p val.V) error {
	ops, ok := p.([]val.V)
	if !ok {
		return fmt.Errorf("not a JSON array")
	}
	for i, o := range ops {
		m, ok := o.(map[string]val.V)
		if !ok {
			return fmt.Errorf("op %d is not an object", i)
		}
		name, ok := m["op"].(string)
		if !ok {
			return fmt.Errorf("op %d has no string op", i)
		}
		if name != "add" && name != "remove" && name != "test" {
			return fmt.Errorf("op %d is %q", i, name)
		}
		ps, ok := m["path"].(string)
		if !ok {
			return fmt.Errorf("op %d has no string path", i)
		}
		if _, err := ref.ParsePointer(ps); err != nil {
			return fmt.Errorf("op %d: %v", i, err)
		}
		if _, has := m["value"]; !has && name != "remove" {
			return fmt.Errorf("op %d (%s) has no value", i, name)
		}
	}
	return nil
}

func patchClasses(p val.V) (cls []string, nontrivial bool) {
	ops, _ := p.([]val.V)
	addsAt := map[string]int{}
	tests, removes := 0, 0
	for _, o := range ops {
		m := o.(map[string]val.V)
		name, _ := m["op"].(string)
		ps, _ := m["path"].(string)
		switch name {
		case "add":
			addsAt[ps]++
		case "test":
			tests++
		case "remove":
			removes++
		}
		if strings.Contains(ps, "~0") || strings.Contains(ps, "~1") {
			cls = append(cls, "escaped-token")
			nontrivial = true
		}
	}
	if tests > removes {
		cls = append(cls, "context-test")
		nontrivial = true
	}
	for _, n := range addsAt {
		if n >= 2 {
			cls = append(cls, "multi-add-at-one-pointer")
			nontrivial = true
		}
	}
	return dedupStrings(cls), nontrivial
}

// checkC09Refusal: diffs made under SET / MULTISET / SetKeys address array
// members through {} / [] / {"k":v} path elements, which no JSON Pointer can
// express: RenderPatch must refuse them (an error), never print a patch.
func checkC09Refusal(c PairCase, r *rec.Rec) error {
	d, pmsg, panicked := jdx.DiffSafe(jdx.NodeText(c.A), jdx.NodeText(c.B), jdx.Options(c.Opts))
	if panicked {
		return rec.Violated("Diff panicked: %s", pmsg)
	}
	hs, err := jdx.ToHunks(d)
	if err != nil {
		return rec.Violated("diff holds an unreadable node: %v", err)
	}
	setPath := false
	for _, h := range hs {
		for _, e := range h.Path {
			if e.Kind != ref.Key && e.Kind != ref.Index {
				setPath = true
			}
		}
	}
	var ptext string
	var perr error
	if msg, p := jdx.Guard(func() { ptext, perr = jdx.NodeText(c.A).Diff(jdx.NodeText(c.B), jdx.Options(c.Opts)...).RenderPatch() }); p {
		return rec.Violated("RenderPatch panicked: %s", msg)
	}
	if setPath && perr == nil {
		return rec.Violated("the diff addresses set members (%s) but RenderPatch printed a JSON Patch instead of refusing:\n%s\nnative diff:\n%s", c.Opts, ptext, d.Render())
	}
	cls := []string{"opts=" + c.Opts}
	if setPath {
		cls = append(cls, "refused-set-path")
	}
	r.Case(c.A+"|"+c.B+"|"+c.Opts, setPath, cls...)
	if setPath {
		r.Sample(c)
	}
	return nil
}

func checkC09(c TargetCase, r *rec.Rec) error {
	av, err := val.Parse(c.A)
	if err != nil {
		return fmt.Errorf("bad case: %v", err)
	}
	bv, err := val.Parse(c.B)
	if err != nil {
		return fmt.Errorf("bad case: %v", err)
	}
	cv, err := val.Parse(c.C)
	if err != nil {
		return fmt.Errorf("bad case: %v", err)
	}
	mk := func() jd.Diff { return jdx.NodeText(c.A).Diff(jdx.NodeText(c.B)) }
	d, pmsg, panicked := jdx.DiffSafe(jdx.NodeText(c.A), jdx.NodeText(c.B), nil)
	if panicked {
		return rec.Violated("Diff panicked: %s", pmsg)
	}
	hs, err := jdx.ToHunks(d)
	if err != nil {
		return rec.Violated("diff holds an unreadable node: %v", err)
	}
	native := d.Render()
	var ptext string
	var perr error
	// The diff is rendered first and the same value is applied natively
	// afterwards (the order a caller that prints and applies would use).
	if msg, p := jdx.Guard(func() { ptext, perr = d.RenderPatch() }); p {
		return rec.Violated("RenderPatch panicked: %s", msg)
	}
	mustRefuse, grey := keyExpressibility(hs)
	if mustRefuse {
		if perr == nil {
			return rec.Violated("a path holds a key that looks like a number or is \"-\" but RenderPatch did not refuse:\n%s\nnative diff:\n%s", ptext, native)
		}
		r.Case(c.A+"|"+c.B, false, "refused")
		return nil
	}
	if perr != nil {
		if grey {
			r.Case(c.A+"|"+c.B, false, "grey-zone-refused")
			return nil
		}
		return rec.Violated("RenderPatch refuses an expressible diff: %v\nnative diff:\n%s", perr, native)
	}
	pv, err := val.Parse(ptext)
	if err != nil {
		return rec.Violated("RenderPatch output is not JSON: %v\n%s", err, ptext)
	}
	if err := wellFormed6902(pv); err != nil {
		return rec.Violated("RenderPatch output is not a well-formed JSON Patch: %v\n%s", err, ptext)
	}
	// an independent evaluation on a yields b
	got, err := ref.Patch6902(av, pv)
	if err != nil {
		return rec.Violated("the rendered JSON Patch does not apply to a under RFC 6902: %v\npatch: %s\nnative diff:\n%s", err, ptext, native)
	}
	if !val.Equal(got, bv, val.List) {
		return rec.Violated("the rendered JSON Patch turns a into %s, not into b = %s\npatch: %s\nnative diff:\n%s", val.JSON(got), c.B, ptext, native)
	}
	cls, nontrivial := patchClasses(pv)
	cls = append(cls, "rendered")
	// wherever the native diff applies, the JSON Patch applies with the same result
	out := jdx.Patch(jdx.NodeText(c.C), d)
	if fresh := jdx.Patch(jdx.NodeText(c.C), mk()); fresh.OK() != out.OK() || (out.OK() && fresh.Node.Json() != out.Node.Json()) {
		return rec.Violated("after RenderPatch the diff no longer acts on %s like a freshly made one: %s vs %s\nnative diff now:\n%s\nbefore:\n%s", c.C, okWord(out), okWord(fresh), d.Render(), native)
	}
	if out.OK() {
		want, err := val.Parse(out.Node.Json())
		if err != nil {
			return rec.Violated("native result unreadable: %v", err)
		}
		got, err := ref.Patch6902(cv, pv)
		if err != nil {
			return rec.Violated("the native diff applies to %s but the JSON Patch does not (RFC 6902: %v)\npatch: %s\nnative diff:\n%s", c.C, err, ptext, native)
		}
		if !val.Equal(got, want, val.List) {
			return rec.Violated("on %s the native diff gives %s, the JSON Patch gives %s\npatch: %s\nnative diff:\n%s", c.C, val.JSON(want), val.JSON(got), ptext, native)
		}
		cls = append(cls, "native-applies")
		if c.C != c.A {
			cls = append(cls, "native-applies-on-c!=a")
		}
	} else {
		cls = append(cls, "native-rejects")
	}
	r.Case(c.A+"|"+c.B+"|"+c.C, nontrivial, cls...)
	if nontrivial {
		r.Sample(c)
	}
	return nil
}

func genListPairNasty(t *rapid.T) (val.V, val.V, gen.Profile) {
	p := gen.Profile{ArrayBias: 50, MaxArr: 7}
	switch gen.Int(t, "keyProfile", 0, 9) {
	case 0, 1, 2, 3:
		p.NastyKeys = true
	case 4:
		p.NastyKeys = true
		p.Payload = true
	}
	a := gen.Doc(t, p)
	var b val.V
	if gen.Chance(t, "independent", 8) {
		b = gen.Doc(t, p)
	} else {
		b = gen.EditN(t, a, p, 1, 5)
	}
	if gen.Chance(t, "pathTwins", 4) {
		a, b = gen.PathTwins(t, a, b, p)
	}
	if gen.Chance(t, "deep", 15) {
		a, b = gen.DeepPair(t, a, b, p)
	}
	return a, b, p
}

func genC09(t *rapid.T) TargetCase {
	a, b, p := genListPairNasty(t)
	if gen.Chance(t, "voidSide", 3) {
		if gen.Chance(t, "voidA", 50) {
			a = val.Void
		} else {
			b = val.Void
		}
	}
	c := TargetCase{A: val.JSON(a), B: val.JSON(b), Opts: "list"}
	d, _, panicked := jdx.DiffSafe(jdx.Node(a), jdx.Node(b), nil)
	var hs []ref.Hunk
	if !panicked {
		hs, _ = jdx.ToHunks(d)
	}
	tv, how := drawTarget(t, a, b, hs, p)
	c.C, c.How = val.JSON(tv), how
	return c
}

func init() { Register("C09", "random", checkC09); Register("C09", "refusal", checkC09Refusal) }

func TestC09Random(t *testing.T) { RunRandom(t, "C09", "random", genC09, checkC09) }

func TestC09Refusal(t *testing.T) {
	RunRandom(t, "C09", "refusal", func(t *rapid.T) PairCase {
		return genPairCase(t, []string{"set", "mset", "setkeys:id"}, nil)
	}, checkC09Refusal)
}

// ---- documents that came out of Patch (not out of a reader)
//
// a' = Patch(A, A.Diff(X)) is a document like any other; its diff against B
// must translate just as faithfully as the diff of a freshly read document.

func emptySomeArrays(t *rapid.T, v val.V) val.V {
	switch x := v.(type) {
	case []val.V:
		if len(x) > 0 && gen.Chance(t, "emptyIt", 45) {
			return []val.V{}
		}
		out := make([]val.V, len(x))
		for i, e := range x {
			out[i] = emptySomeArrays(t, e)
		}
		return out
	case map[string]val.V:
		out := map[string]val.V{}
		for _, k := range val.Keys(x) {
			out[k] = emptySomeArrays(t, x[k])
		}
		return out
	}
	return v
}

func checkC09Patched(c PatchedCase, r *rec.Rec) error {
	mk, pv, err := patchedDoc(c)
	if err != nil {
		r.Class("skipped:" + err.Error())
		return nil
	}
	bv, err := val.Parse(c.B)
	if err != nil {
		return fmt.Errorf("bad case: %v", err)
	}
	var d jd.Diff
	if msg, p := jdx.Guard(func() { d = mk().Diff(jdx.NodeText(c.B)) }); p {
		return rec.Violated("Diff panicked on a patched document: %s", msg)
	}
	hs, err := jdx.ToHunks(d)
	if err != nil {
		return rec.Violated("diff holds an unreadable node: %v", err)
	}
	if mustRefuse, grey := keyExpressibility(hs); mustRefuse || grey {
		r.Class("skipped:inexpressible-key")
		return nil
	}
	var ptext string
	var perr error
	if msg, p := jdx.Guard(func() { ptext, perr = d.RenderPatch() }); p {
		return rec.Violated("RenderPatch panicked: %s", msg)
	}
	desc := fmt.Sprintf("a' = Patch(%s, diff to %s) = %s, b = %s", c.A, c.X, val.JSON(pv), c.B)
	if perr != nil {
		return rec.Violated("%s: RenderPatch refuses an expressible diff: %v\nnative diff:\n%s", desc, perr, d.Render())
	}
	patch, err := val.Parse(ptext)
	if err != nil {
		return rec.Violated("%s: RenderPatch output is not JSON: %v\n%s", desc, err, ptext)
	}
	if err := wellFormed6902(patch); err != nil {
		return rec.Violated("%s: RenderPatch output is not a well-formed JSON Patch: %v\n%s", desc, err, ptext)
	}
	got, err := ref.Patch6902(pv, patch)
	if err != nil {
		return rec.Violated("%s: the rendered JSON Patch does not apply to a' under RFC 6902: %v\npatch: %s", desc, err, ptext)
	}
	if !val.Equal(got, bv, val.List) {
		return rec.Violated("%s: the rendered JSON Patch turns a' into %s\npatch: %s", desc, val.JSON(got), ptext)
	}
	// and the native text of that diff reads back to the same effect
	var native string
	jdx.Guard(func() { native = mk().Diff(jdx.NodeText(c.B)).Render() })
	if d2, err := jd.ReadDiffString(native); err != nil {
		return rec.Violated("%s: jd cannot read the native rendering: %v\n%s", desc, err, native)
	} else if out := jdx.Patch(jdx.NodeText(val.JSON(pv)), d2); !out.OK() || !out.Node.Equals(jdx.NodeText(c.B)) {
		return rec.Violated("%s: the native rendering does not turn a' into b\n%s", desc, native)
	}
	cls, nontrivial := patchClasses(patch)
	cls = append(cls, "patched-origin")
	r.Case(fmt.Sprintf("%v", c), nontrivial, cls...)
	if nontrivial {
		r.Sample(c)
	}
	return nil
}

func genC09Patched(t *rapid.T) PatchedCase {
	p := gen.Profile{ArrayBias: 60, MaxArr: 5}
	a := gen.Doc(t, p)
	var x val.V
	switch gen.Int(t, "xKind", 0, 2) {
	case 0:
		x = emptySomeArrays(t, a)
	case 1:
		x = emptySomeArrays(t, gen.Edit(t, a, p))
	default:
		x = gen.EditN(t, a, p, 1, 3)
	}
	var b val.V
	switch gen.Int(t, "bKind", 0, 3) {
	case 0:
		b = gen.EditN(t, x, p, 1, 3)
	case 1:
		// whatever was emptied is now removed, replaced or a neighbour of an edit
		b = []val.V{"front", x}
		if l, ok := x.([]val.V); ok {
			b = append([]val.V{"front"}, l...)
		}
	case 2:
		b = val.Clone(a)
	default:
		b = gen.Doc(t, p)
	}
	return PatchedCase{A: val.JSON(a), X: val.JSON(x), PatchOpts: "list", B: val.JSON(b), Opts: "list"}
}

func init() { Register("C09", "patched", checkC09Patched) }

func TestC09Patched(t *testing.T) { RunRandom(t, "C09", "patched", genC09Patched, checkC09Patched) }
