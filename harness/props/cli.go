package props

import (
	"bytes"
	"context"
	"fmt"
	"os"
	"os/exec"
	"path/filepath"
	"strings"
	"time"
)

// CLI process runner. Binaries are built by the driver from /repo's working
// tree into VERIF_BIN_DIR: jd-v2 (v2/jd/main.go) and jd-top (main.go).

type CLIResult struct {
	Status   int
	Stdout   string
	Stderr   string
	TimedOut bool
}

func cliBin(name string) string {
	d := os.Getenv("VERIF_BIN_DIR")
	if d == "" {
		d = os.TempDir()
	}
	return filepath.Join(d, name)
}

func haveCLI() bool {
	for _, n := range []string{"jd-v2", "jd-top"} {
		if _, err := os.Stat(cliBin(n)); err != nil {
			return false
		}
	}
	return true
}

// runCLIFileStdin is runCLI with stdin redirected from a regular file
// (jd ... < file) instead of a pipe.
func runCLIFileStdin(bin string, args []string, stdin string, dir string) CLIResult {
	f, err := os.CreateTemp(dir, "stdin")
	if err != nil {
		panic(err)
	}
	defer os.Remove(f.Name())
	f.WriteString(stdin)
	f.Seek(0, 0)
	defer f.Close()
	ctx, cancel := context.WithTimeout(context.Background(), 20*time.Second)
	defer cancel()
	cmd := exec.CommandContext(ctx, cliBin(bin), args...)
	cmd.Dir = dir
	var so, se bytes.Buffer
	cmd.Stdout, cmd.Stderr = &so, &se
	cmd.Stdin = f
	err = cmd.Run()
	res := CLIResult{Stdout: so.String(), Stderr: se.String()}
	if ctx.Err() != nil {
		res.TimedOut = true
		res.Status = -1
		return res
	}
	if err != nil {
		if ee, ok := err.(*exec.ExitError); ok {
			res.Status = ee.ExitCode()
		} else {
			res.Status = -2
			res.Stderr += "\n" + err.Error()
		}
	}
	return res
}

// runCLI runs a jd binary in dir. stdin == nil leaves stdin empty/closed.
func runCLI(bin string, args []string, stdin *string, dir string) CLIResult {
	ctx, cancel := context.WithTimeout(context.Background(), 20*time.Second)
	defer cancel()
	cmd := exec.CommandContext(ctx, cliBin(bin), args...)
	cmd.Dir = dir
	var so, se bytes.Buffer
	cmd.Stdout, cmd.Stderr = &so, &se
	if stdin != nil {
		cmd.Stdin = strings.NewReader(*stdin)
	}
	err := cmd.Run()
	res := CLIResult{Stdout: so.String(), Stderr: se.String()}
	if ctx.Err() != nil {
		res.TimedOut = true
		res.Status = -1
		return res
	}
	if err != nil {
		if ee, ok := err.(*exec.ExitError); ok {
			res.Status = ee.ExitCode()
		} else {
			res.Status = -2
			res.Stderr += "\n" + err.Error()
		}
	}
	return res
}

// caseDir makes a scratch directory for one CLI case.
func caseDir() (string, func()) {
	base := os.Getenv("VERIF_OUT_DIR")
	if base == "" {
		base = os.TempDir()
	}
	d, err := os.MkdirTemp(base, "cli")
	if err != nil {
		panic(err)
	}
	return d, func() { os.RemoveAll(d) }
}

func writeFile(dir, name, content string) string {
	p := filepath.Join(dir, name)
	if err := os.WriteFile(p, []byte(content), 0o644); err != nil {
		panic(err)
	}
	return p
}

// inconclusive is returned by checks when the environment (not jd) fails.
type inconclusive struct{ msg string }

func (e inconclusive) Error() string { return "INCONCLUSIVE: " + e.msg }

func cliTrouble(r CLIResult) error {
	if r.TimedOut {
		return inconclusive{"jd process timed out"}
	}
	if r.Status == -2 {
		return inconclusive{fmt.Sprintf("jd process could not be run: %s", r.Stderr)}
	}
	return nil
}
