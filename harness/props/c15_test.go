package props

import (
	"fmt"
	"reflect"
	"strings"
	"sync"
	"testing"

	jd "github.com/josephburnett/jd/v2"
	"pgregory.net/rapid"

	"verifjd/gen"
	"verifjd/jdx"
	"verifjd/rec"
	"verifjd/val"
)

// C15 — diffing and rendering are pure and deterministic.

// HistoryCase: the read-only calls Ops are made, in order, on the same
// document and diff values; after every call all earlier observations must
// still hold; finally the same in-memory diff must still patch a into b.
type HistoryCase struct {
	A    string   `json:"a"`
	B    string   `json:"b"`
	Opts string   `json:"opts"`
	Ops  []string `json:"ops"`
}

var c15Ops = []string{"render", "render-color", "render-patch", "render-merge", "a-json", "a-yaml", "b-json", "b-yaml", "equals", "diff-again", "patch", "read-merge-render"}

func dumpDiff(d jd.Diff) string {
	hs, err := jdx.ToHunks(d)
	if err != nil {
		return "unreadable: " + err.Error()
	}
	var b strings.Builder
	for _, h := range hs {
		b.WriteString(h.String())
		b.WriteString(fmt.Sprintf(" |b%d r%d a%d a%d|\n", len(h.Before), len(h.Remove), len(h.Add), len(h.After)))
	}
	return b.String()
}

func checkC15(c HistoryCase, r *rec.Rec) error {
	opts := jdx.Options(c.Opts)
	a, b := jdx.NodeText(c.A), jdx.NodeText(c.B)
	var d jd.Diff
	if msg, p := jdx.Guard(func() { d = a.Diff(b, opts...) }); p {
		return rec.Violated("Diff panicked: %s", msg)
	}
	snapA, snapB := a.Json(), b.Json()
	snapRender := d.Render()
	snapDump := dumpDiff(d)
	first := map[string]string{}
	multiAdd, voidAdd := false, false
	for _, e := range d {
		if len(e.Add) >= 2 {
			multiAdd = true
		}
		for _, n := range e.Add {
			if n.Json() == "" {
				voidAdd = true
			}
		}
	}
	call := func(op string) (string, error) {
		var out string
		var perr error
		msg, panicked := jdx.Guard(func() {
			switch op {
			case "render":
				out = d.Render()
			case "render-color":
				out = d.Render(jd.COLOR)
			case "render-patch":
				s, err := d.RenderPatch()
				if err != nil {
					out = "ERR"
				} else {
					out = s
				}
			case "render-merge":
				s, err := d.RenderMerge()
				if err != nil {
					out = "ERR"
				} else {
					out = s
				}
			case "a-json":
				out = a.Json()
			case "a-yaml":
				out = a.Yaml()
			case "b-json":
				out = b.Json()
			case "b-yaml":
				out = b.Yaml()
			case "equals":
				out = fmt.Sprint(a.Equals(b, opts...), b.Equals(a, opts...))
			case "diff-again":
				out = a.Diff(b, opts...).Render()
			case "patch":
				res := jdx.Patch(jdx.NodeText(c.A), d)
				if !res.OK() {
					perr = rec.Violated("after %v the diff no longer applies to a: %s", "earlier calls", okWord(res))
					return
				}
				if bv, err := val.Parse(c.B); jdx.IsMerge(c.Opts) && err == nil && val.HasNull(bv) {
					// a null member of b means "delete" to a merge patch: the
					// round trip is not claimed there, only purity is
					out = "applied"
					return
				}
				if !res.Node.Equals(jdx.NodeText(c.B), opts...) {
					perr = rec.Violated("the diff now turns a into %s instead of b = %s", res.Node.Json(), c.B)
					return
				}
				out = "ok"
			case "read-merge-render":
				s, err := d.RenderMerge()
				if err != nil {
					out = "ERR"
					return
				}
				d2, err := jd.ReadMergeString(s)
				if err != nil {
					out = "READ-ERR"
					return
				}
				out = d2.Render()
			default:
				perr = fmt.Errorf("bad case: unknown op %q", op)
			}
		})
		if panicked {
			return "", rec.Violated("%s panicked: %s", op, msg)
		}
		return out, perr
	}
	history := []string{}
	for _, op := range c.Ops {
		out, err := call(op)
		history = append(history, op)
		if err != nil {
			if v, ok := err.(*rec.Violation); ok {
				return rec.Violated("%s (history: %v)", v.Msg, history)
			}
			return err
		}
		if prev, seen := first[op]; seen && prev != out {
			return rec.Violated("%s returns a different result the second time (history: %v)\nfirst:\n%s\nnow:\n%s", op, history, prev, out)
		}
		first[op] = out
		// nothing that was observed before may have changed
		if got := a.Json(); got != snapA {
			return rec.Violated("document a changed from %s to %s (history: %v)", snapA, got, history)
		}
		if got := b.Json(); got != snapB {
			return rec.Violated("document b changed from %s to %s (history: %v)", snapB, got, history)
		}
		if !reflect.DeepEqual(opts, jdx.Options(c.Opts)) {
			return rec.Violated("the option list handed to the calls changed from %v to %v (history: %v)", jdx.Options(c.Opts), opts, history)
		}
		if got := dumpDiff(d); got != snapDump {
			return rec.Violated("the diff value changed (history: %v)\nbefore:\n%safter:\n%s", history, snapDump, got)
		}
		if got := d.Render(); got != snapRender {
			return rec.Violated("the diff renders differently (history: %v)\nbefore:\n%s\nafter:\n%s", history, snapRender, got)
		}
	}
	// a diff still patches correctly after being rendered in any format
	if _, err := call("patch"); err != nil {
		if v, ok := err.(*rec.Violation); ok {
			return rec.Violated("%s (history: %v)", v.Msg, history)
		}
		return err
	}
	rendersPatch, rendersMerge := false, false
	for _, op := range c.Ops {
		if op == "render-patch" {
			rendersPatch = true
		}
		if op == "render-merge" || op == "read-merge-render" {
			rendersMerge = true
		}
	}
	cls := []string{"opts=" + c.Opts}
	nontrivial := false
	if rendersPatch && multiAdd {
		cls = append(cls, "render-patch-on-multi-add")
		nontrivial = true
	}
	if rendersMerge && voidAdd {
		cls = append(cls, "render-merge-on-void-add")
		nontrivial = true
	}
	if len(c.Ops) >= 3 && len(d) > 0 {
		cls = append(cls, "history>=3")
		nontrivial = true
	}
	r.Case(fmt.Sprintf("%s|%s|%s|%v", c.A, c.B, c.Opts, c.Ops), nontrivial, cls...)
	if nontrivial {
		r.Sample(c)
	}
	return nil
}

func genC15(t *rapid.T) HistoryCase {
	if gen.Chance(t, "precisionOption", 12) {
		// the option list is an input too: Precision(eps) in list mode on
		// documents whose numbers move by less and by more than eps
		var pc PairCase
		for i := 0; i < 4; i++ {
			pc = genEqPair(t, []string{"list"}, true)
			if _, ok := jdx.Precision(pc.Opts); ok {
				break
			}
		}
		if _, ok := jdx.Precision(pc.Opts); ok && !val.IsVoid(val.MustParse(pc.A)) && !val.IsVoid(val.MustParse(pc.B)) {
			// containers at the same index that differ by more than eps, then a pair within eps
			eps, _ := jdx.Precision(pc.Opts)
			a := []val.V{map[string]val.V{"x": 1.0, "y": val.MustParse(pc.A)}, 5.0, map[string]val.V{"z": 2.0}}
			b := []val.V{map[string]val.V{"x": 1.0 + 3*eps, "y": val.MustParse(pc.B)}, 5.0 + eps/2, map[string]val.V{"z": 2.0 + eps/2}}
			n := gen.Int(t, "nOps", 2, 10)
			ops := make([]string, n)
			for i := range ops {
				ops[i] = gen.Pick(t, "op", []string{"render", "equals", "diff-again", "equals", "diff-again", "render-patch", "a-json"})
			}
			return HistoryCase{A: val.JSON(a), B: val.JSON(b), Opts: pc.Opts, Ops: ops}
		}
	}
	pc := genPairCase(t, []string{"list", "list", "merge", "merge", "set", "mset", "setkeys:id", "set+merge"}, func(p *gen.Profile) {
		p.VoidRoot = gen.Chance(t, "void", 30)
		if gen.Chance(t, "objects", 50) {
			p.MaxObj = 5
		}
	})
	if jdx.IsMerge(pc.Opts) && gen.Chance(t, "nullMembers", 35) {
		// purity does not need null-free documents: b gains objects that hold nulls
		if bo, ok := val.MustParse(pc.B).(map[string]val.V); ok {
			bo[gen.Pick(t, "nullHolderKey", []string{"n", "a", "zz"})] = gen.Pick(t, "nullHolder", []val.V{
				map[string]val.V{"x": nil, "y": 2.0}, map[string]val.V{"p": map[string]val.V{"q": nil}}, nil, []val.V{nil, map[string]val.V{"x": nil}},
			})
			pc.B = val.JSON(bo)
		}
	}
	n := gen.Int(t, "nOps", 1, 12)
	ops := make([]string, n)
	noColor := hasLongString(val.MustParse(pc.A), 3000)
	for i := range ops {
		ops[i] = gen.Pick(t, "op", c15Ops)
		if noColor && ops[i] == "render-color" {
			ops[i] = "render"
		}
	}
	return HistoryCase{A: pc.A, B: pc.B, Opts: pc.Opts, Ops: ops}
}

// ---- determinism under map iteration order

type DetCase struct {
	A     string `json:"a"`
	B     string `json:"b"`
	Opts  string `json:"opts"`
	Merge string `json:"merge"` // a JSON Merge Patch document
}

func checkC15Det(c DetCase, r *rec.Rec) error {
	opts := jdx.Options(c.Opts)
	const reps = 20
	var first string
	for i := 0; i < reps; i++ {
		d := jdx.NodeText(c.A).Diff(jdx.NodeText(c.B), opts...)
		s := d.Render()
		if p, err := d.RenderPatch(); err == nil {
			s += "\n--patch--\n" + p
		}
		if m, err := jdx.NodeText(c.A).Diff(jdx.NodeText(c.B), opts...).RenderMerge(); err == nil {
			s += "\n--merge--\n" + m
		}
		s += "\n--json--\n" + jdx.NodeText(c.A).Json() + jdx.NodeText(c.B).Yaml() + jdx.NodeText(c.A).Yaml()
		if i == 0 {
			first = s
		} else if s != first {
			return rec.Violated("the same Diff / Render calls give different output on repetition %d\nfirst:\n%s\nnow:\n%s", i, first, s)
		}
	}
	// The same calls from several goroutines at once, next to goroutines that
	// render the opposite diff: a pure function gives each caller the output
	// it gives when called alone.
	compute := func(x, y string) string {
		d := jdx.NodeText(x).Diff(jdx.NodeText(y), opts...)
		s := d.Render()
		if p, err := d.RenderPatch(); err == nil {
			s += "\n--patch--\n" + p
		}
		if m, err := jdx.NodeText(x).Diff(jdx.NodeText(y), opts...).RenderMerge(); err == nil {
			s += "\n--merge--\n" + m
		}
		return s + "\n--json--\n" + jdx.NodeText(x).Json() + jdx.NodeText(y).Yaml() + jdx.NodeText(x).Yaml()
	}
	var firstRev string
	if msg, p := jdx.Guard(func() { firstRev = compute(c.B, c.A) }); p {
		return rec.Violated("Diff / Render panicked on (b, a): %s", msg)
	}
	const workers = 8
	results := make([]string, workers)
	var wg sync.WaitGroup
	for w := 0; w < workers; w++ {
		wg.Add(1)
		go func(w int) {
			defer wg.Done()
			defer func() {
				if e := recover(); e != nil {
					results[w] = fmt.Sprintf("PANIC: %v", e)
				}
			}()
			for k := 0; k < 3; k++ {
				if w%2 == 0 {
					results[w] = compute(c.A, c.B)
				} else {
					results[w] = compute(c.B, c.A)
				}
			}
		}(w)
	}
	wg.Wait()
	for w, got := range results {
		want := first
		if w%2 == 1 {
			want = firstRev
		}
		if got != want {
			return rec.Violated("called from %d goroutines at once, Diff / Render give a different output than when called alone (goroutine %d)\nalone:\n%s\nconcurrently:\n%s", workers, w, want, got)
		}
	}
	multiKey := strings.Count(c.Merge, ":") >= 2
	if c.Merge != "" {
		var firstM string
		for i := 0; i < reps; i++ {
			d, err := jd.ReadMergeString(c.Merge)
			s := "ERR"
			if err == nil {
				s = d.Render()
				if out := jdx.Patch(jdx.NodeText(c.A), d); out.OK() {
					s += "\n--result--\n" + out.Node.Json()
				}
			}
			if i == 0 {
				firstM = s
			} else if s != firstM {
				return rec.Violated("reading the merge patch %s gives different diffs on repetition %d\nfirst:\n%s\nnow:\n%s", c.Merge, i, firstM, s)
			}
		}
	}
	r.Case(c.A+"|"+c.B+"|"+c.Opts+"|"+c.Merge, multiKey, "opts="+c.Opts)
	if multiKey {
		r.Sample(c)
	}
	return nil
}

// numberLikeKeys: object keys that a "natural" (number-aware) ordering
// compares differently from a plain string ordering.
var numberLikeKeys = []string{"01", "1e2", "10", "1", "2", "9", "1.5", "0x10", "a1", "a10", "a2", "A1", "-1", "+1", "1_0", "1a", "001", "a01", "a0a", "a1e", "v01", "v10", "v1a", "x9", "x10", "x1e1"}

// wideObjectPair: objects with more keys than any block size or small-map
// threshold, a few values changed.
func wideObjectPair(t *rapid.T) (val.V, val.V) {
	n := gen.Int(t, "wideKeys", 64, 140*gen.Scale())
	a, b := map[string]val.V{}, map[string]val.V{}
	for i := 0; i < n; i++ {
		k := fmt.Sprintf("k%03d", (i*37)%1000)
		a[k] = float64(i % 4)
		b[k] = a[k]
	}
	ks := val.Keys(a)
	for e := gen.Int(t, "wideEdits", 2, 6); e > 0; e-- {
		k := ks[gen.Int(t, "wideAt", 0, len(ks)-1)]
		switch gen.Int(t, "wideOp", 0, 2) {
		case 0:
			b[k] = "changed"
		case 1:
			delete(b, k)
		default:
			b[k+"x"] = 1.0
		}
	}
	return a, b
}

func genC15Det(t *rapid.T) DetCase {
	if gen.Chance(t, "wideObject", 8) {
		a, b := wideObjectPair(t)
		opts := gen.Pick(t, "wideOpts", []string{"list", "merge", "set"})
		var av, bv val.V = a, b
		if gen.Chance(t, "wideNested", 40) {
			av, bv = []val.V{1.0, a}, []val.V{1.0, b}
		}
		return DetCase{A: val.JSON(av), B: val.JSON(bv), Opts: opts}
	}
	if gen.Chance(t, "numberLikeKeys", 30) {
		mk := func() val.V {
			o := map[string]val.V{}
			for k := gen.Int(t, "nKeys", 3, 6); k > 0; k-- {
				o[gen.Pick(t, "nlk", numberLikeKeys)] = float64(gen.Int(t, "v", 0, 3))
			}
			return o
		}
		a, b := mk(), mk()
		if gen.Chance(t, "nested", 60) {
			wrap := func(v val.V) val.V {
				switch gen.Int(t, "nlkWrap", 0, 5) {
				case 0:
					return map[string]val.V{"x": v}
				case 1:
					return []val.V{v}
				case 2:
					return []val.V{[]val.V{v}}
				case 3:
					return map[string]val.V{"x": []val.V{1.0, []val.V{[]val.V{v, 2.0}}}}
				case 4:
					return []val.V{[]val.V{}, []val.V{[]val.V{v}}, map[string]val.V{"y": []val.V{[]val.V{v}}}}
				}
				return []val.V{map[string]val.V{"x": []val.V{v}}}
			}
			a, b = wrap(a), wrap(b)
		}
		return DetCase{A: val.JSON(a), B: val.JSON(b), Opts: "list"}
	}
	var pc PairCase
	gen.Unscaled(func() { pc = genPairCase(t, c01OptSets, func(p *gen.Profile) { p.MaxObj = 6 }) })
	p := gen.Profile{MaxObj: 6, MaxDepth: 3}
	m := genMergeDoc(t, gen.Object(t, p, 0))
	return DetCase{A: pc.A, B: pc.B, Opts: pc.Opts, Merge: val.JSON(m)}
}

// ---- determinism across fresh processes

type ProcCase struct {
	A     string   `json:"a"`
	B     string   `json:"b"`
	Bin   string   `json:"bin"`
	Flags []string `json:"flags"`
}

func checkC15Proc(c ProcCase, r *rec.Rec) error {
	if !haveCLI() {
		return inconclusive{"jd binaries not built"}
	}
	dir, cleanup := caseDir()
	defer cleanup()
	writeFile(dir, "a.json", c.A)
	writeFile(dir, "b.json", c.B)
	args := append(append([]string{}, c.Flags...), "a.json", "b.json")
	var first CLIResult
	for i := 0; i < 5; i++ {
		res := runCLI(c.Bin, args, nil, dir)
		if err := cliTrouble(res); err != nil {
			return err
		}
		if i == 0 {
			first = res
		} else if res.Stdout != first.Stdout || res.Status != first.Status {
			return rec.Violated("%s %v prints different output in fresh processes\nfirst (status %d):\n%s\nrun %d (status %d):\n%s", c.Bin, args, first.Status, first.Stdout, i, res.Status, res.Stdout)
		}
	}
	// translation of a merge patch in fresh processes
	r.Case(fmt.Sprintf("%s|%s|%s|%v", c.A, c.B, c.Bin, c.Flags), strings.Count(c.A+c.B, ":") >= 2, "bin="+c.Bin)
	if strings.Count(c.A+c.B, ":") >= 2 {
		r.Sample(c)
	}
	return nil
}

func genC15Proc(t *rapid.T) ProcCase {
	pc := genPairCase(t, []string{"list", "set", "set", "mset", "mset", "setkeys:id", "merge", "set+merge", "set+mset", "set+mset", "set+mset", "set+mset", "set+mset+merge"}, func(p *gen.Profile) {
		p.MaxObj = 6
		p.VoidRoot = false
		p.Big = 35
		p.ArrayBias = 50
	})
	c := ProcCase{A: pc.A, B: pc.B, Bin: gen.Pick(t, "bin", []string{"jd-v2", "jd-top"}), Flags: optFlags(pc.Opts)}
	if gen.Chance(t, "wideObject", 10) {
		a, b := wideObjectPair(t)
		c.A, c.B, c.Flags = val.JSON(a), val.JSON(b), nil
	}
	if gen.Chance(t, "mergeTranslate", 40) {
		// merge2jd translation of a multi-key merge patch: order of hunks
		m := genMergeDoc(t, gen.Object(t, gen.Profile{MaxObj: 6}, 0))
		c.A = val.JSON(m)
		c.B = ""
		c.Flags = []string{"-t=merge2jd"}
	}
	return c
}

func checkC15ProcDispatch(c ProcCase, r *rec.Rec) error {
	if len(c.Flags) == 1 && c.Flags[0] == "-t=merge2jd" {
		if !haveCLI() {
			return inconclusive{"jd binaries not built"}
		}
		dir, cleanup := caseDir()
		defer cleanup()
		writeFile(dir, "m.json", c.A)
		var first CLIResult
		for i := 0; i < 5; i++ {
			res := runCLI(c.Bin, []string{"-t=merge2jd", "m.json"}, nil, dir)
			if err := cliTrouble(res); err != nil {
				return err
			}
			if i == 0 {
				first = res
			} else if res.Stdout != first.Stdout || res.Status != first.Status {
				return rec.Violated("%s -t=merge2jd on %s prints different output in fresh processes\nfirst:\n%s\nrun %d:\n%s", c.Bin, c.A, first.Stdout, i, res.Stdout)
			}
		}
		multi := strings.Count(c.A, ":") >= 2
		r.Case(c.A+"|"+c.Bin+"|merge2jd", multi, "bin="+c.Bin, "merge2jd")
		if multi {
			r.Sample(c)
		}
		return nil
	}
	return checkC15Proc(c, r)
}

func init() {
	Register("C15", "history", checkC15)
	Register("C15", "determinism", checkC15Det)
	Register("C15", "processes", checkC15ProcDispatch)
}

func TestC15History(t *testing.T)     { RunRandom(t, "C15", "history", genC15, checkC15) }
func TestC15Determinism(t *testing.T) { RunRandom(t, "C15", "determinism", genC15Det, checkC15Det) }
func TestC15Processes(t *testing.T) {
	RunRandom(t, "C15", "processes", genC15Proc, checkC15ProcDispatch)
}
