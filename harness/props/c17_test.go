package props

import (
	"fmt"
	"path/filepath"
	"strconv"
	"strings"
	"testing"

	v1 "github.com/josephburnett/jd/lib"
	"pgregory.net/rapid"

	"verifjd/gen"
	"verifjd/jdx"
	"verifjd/rec"
	"verifjd/ref"
	"verifjd/val"
)

// C17 — v1 library: diff-then-patch reproduces the target; equality is coherent.
// C18 — v1 library: RFC 6902 / RFC 7386 renderings are faithful.

func v1Node(text string) v1.JsonNode {
	n, err := v1.ReadJsonString(text)
	if err != nil {
		panic(fmt.Sprintf("v1.ReadJsonString(%q): %v", text, err))
	}
	return n
}

// v1Metadata translates an option-set name into v1 metadata.
func v1Metadata(name string) []v1.Metadata {
	var out []v1.Metadata
	for _, part := range strings.Split(name, "+") {
		switch {
		case part == "list" || part == "":
		case part == "set":
			out = append(out, v1.SET)
		case part == "mset":
			out = append(out, v1.MULTISET)
		case part == "merge":
			out = append(out, v1.MERGE)
		case strings.HasPrefix(part, "setkeys:"):
			out = append(out, v1.Setkeys(strings.Split(strings.TrimPrefix(part, "setkeys:"), ",")...))
		case strings.HasPrefix(part, "prec:"):
			f, _ := strconv.ParseFloat(strings.TrimPrefix(part, "prec:"), 64)
			out = append(out, v1.SetPrecision(f))
		default:
			panic("unknown option set " + name)
		}
	}
	return out
}

type v1Outcome struct {
	Node     v1.JsonNode
	Err      error
	Panicked bool
	PanicMsg string
}

func (o v1Outcome) OK() bool { return !o.Panicked && o.Err == nil }

func (o v1Outcome) word() string {
	switch {
	case o.Panicked:
		return "panics (" + o.PanicMsg + ")"
	case o.Err != nil:
		return "fails (" + o.Err.Error() + ")"
	}
	return "applies"
}

func v1Patch(n v1.JsonNode, d v1.Diff) (o v1Outcome) {
	defer func() {
		if r := recover(); r != nil {
			o = v1Outcome{Panicked: true, PanicMsg: fmt.Sprint(r)}
		}
	}()
	res, err := n.Patch(d)
	return v1Outcome{Node: res, Err: err}
}

// v1SameMemberTwice reports whether two hunks of the diff go through the
// same member object (an object element of the path).
func v1SameMemberTwice(d v1.Diff) bool {
	seen := map[string]int{}
	for i, e := range d {
		inThis := map[string]bool{}
		for _, pe := range e.Path {
			j := pe.Json()
			if strings.HasPrefix(j, "{") && j != "{}" && !inThis[j] {
				inThis[j] = true
				if _, ok := seen[j]; ok {
					return true
				}
				seen[j] = i
			}
		}
	}
	return false
}

var c17OptSets = []string{"list", "list", "set", "mset", "setkeys:id", "set+setkeys:id", "merge", "set+mset", "mset+set", "set+merge", "mset+merge", "mset+setkeys:id"}

func checkC17(c PairCase, r *rec.Rec) error {
	av, err := val.Parse(c.A)
	if err != nil {
		return fmt.Errorf("bad case: %v", err)
	}
	bv, err := val.Parse(c.B)
	if err != nil {
		return fmt.Errorf("bad case: %v", err)
	}
	md := v1Metadata(c.Opts)
	var d v1.Diff
	if msg, p := jdx.Guard(func() { d = v1Node(c.A).Diff(v1Node(c.B), md...) }); p {
		return rec.Violated("v1 Diff panicked: %s", msg)
	}
	text := d.Render()
	viol := rec.Violated
	if jdx.SetKeysOf(c.Opts) != nil && jdx.Reading(c.Opts) == val.Set && v1SameMemberTwice(d) {
		// Known finding D27: the v1 path of a keyed member hunk carries the
		// whole member as its identity, so a second hunk for the same member
		// does not find it any more.
		viol = func(f string, a ...interface{}) error { return rec.Known("D27", f, a...) }
	}
	// in memory
	out := v1Patch(v1Node(c.A), d)
	if !out.OK() {
		return viol("v1: Patch(a, a.Diff(b)) %s under %s\ndiff:\n%s", out.word(), c.Opts, text)
	}
	if !out.Node.Equals(v1Node(c.B), md...) {
		return viol("v1: Patch(a, a.Diff(b)) = %s does not Equal b = %s under %s\ndiff:\n%s", out.Node.Json(), c.B, c.Opts, text)
	}
	// through the text
	var d2 v1.Diff
	var rerr error
	if msg, p := jdx.Guard(func() { d2, rerr = v1.ReadDiffString(text) }); p {
		return rec.Violated("v1 ReadDiffString panicked: %s\ntext:\n%s", msg, text)
	}
	if rerr != nil {
		return rec.Violated("v1 cannot read its own rendering: %v\ntext:\n%s", rerr, text)
	}
	if err := v1FileAgrees("jd", text, d2); err != nil {
		return err
	}
	if t2 := d2.Render(); t2 != text {
		return rec.Violated("v1 re-rendering differs\nfirst:\n%s\nsecond:\n%s", text, t2)
	}
	out2 := v1Patch(v1Node(c.A), d2)
	if !out2.OK() {
		return viol("v1: the re-read diff %s on a under %s\ntext:\n%s", out2.word(), c.Opts, text)
	}
	if !out2.Node.Equals(v1Node(c.B), md...) {
		return viol("v1: the re-read diff turns a into %s, not into b = %s under %s\ntext:\n%s", out2.Node.Json(), c.B, c.Opts, text)
	}
	// coherence
	equal := v1Node(c.A).Equals(v1Node(c.B), md...)
	if (len(d) == 0) != equal {
		return rec.Violated("v1 under %s: Equals(%s, %s) = %v but the diff has %d hunks:\n%s", c.Opts, c.A, c.B, equal, len(d), text)
	}
	cls := []string{"opts=" + c.Opts}
	la, aIsArr := av.([]val.V)
	lb, bIsArr := bv.([]val.V)
	if aIsArr && bIsArr {
		switch {
		case len(la) > len(lb):
			cls = append(cls, "root-list-shrinks")
		case len(la) < len(lb):
			cls = append(cls, "root-list-grows")
		}
	}
	if strings.Contains(text, "-1]") {
		cls = append(cls, "append-index")
	}
	if strings.Count(text, "@ ") >= 2 {
		cls = append(cls, "multi-hunk")
	}
	if strings.Contains(text, `["MERGE"]`) {
		cls = append(cls, "merge-path")
	}
	if strings.Contains(text, `"setkeys=`) {
		cls = append(cls, "setkeys-path")
	}
	if equal && c.A != c.B {
		cls = append(cls, "equal-but-texts-differ")
	}
	nontrivial := c.A != c.B && (len(d) >= 1 || equal)
	r.Case(c.A+"|"+c.B+"|"+c.Opts, nontrivial, cls...)
	if nontrivial {
		r.Sample(c)
	}
	return nil
}

func genC17(t *rapid.T) PairCase {
	if gen.Chance(t, "precision", 12) {
		pc := genEqPair(t, []string{"list"}, true)
		if _, ok := jdx.Precision(pc.Opts); ok && gen.Chance(t, "withMerge", 35) {
			// MERGE together with SetPrecision, on null-free documents
			a, b := stripNulls(val.MustParse(pc.A)), stripNulls(val.MustParse(pc.B))
			if !val.IsVoid(a) && !val.IsVoid(b) {
				return PairCase{A: val.JSON(a), B: val.JSON(b), Opts: "merge+" + pc.Opts}
			}
		}
		return pc
	}
	if gen.Chance(t, "boundary", 20) {
		pc := genEqPair(t, []string{"list", "set", "mset", "setkeys:id", "set+setkeys:id", "merge", "set+merge", "mset+merge"}, false)
		return pc
	}
	return genPairCase(t, c17OptSets, func(p *gen.Profile) {
		if gen.Chance(t, "arrays", 60) {
			p.ArrayBias = 70
			p.MaxArr = 8
		}
		if gen.Chance(t, "nasty", 30) {
			p.NastyKeys = true
			p.Payload = true
		}
	})
}

// ---- C17 through the top-level binary with -v2=false

func checkC17CLI(c CarrierCLICase, r *rec.Rec) error {
	if !haveCLI() {
		return inconclusive{"jd binaries not built"}
	}
	viol := rec.Violated
	md := v1Metadata(c.Opts)
	if jdx.SetKeysOf(c.Opts) != nil && jdx.Reading(c.Opts) == val.Set {
		var d v1.Diff
		jdx.Guard(func() { d = v1Node(c.A).Diff(v1Node(c.B), md...) })
		if v1SameMemberTwice(d) {
			viol = func(f string, a ...interface{}) error { return rec.Known("D27", f, a...) }
		}
	}
	dir, cleanup := caseDir()
	defer cleanup()
	writeFile(dir, "a", c.A)
	writeFile(dir, "b", c.B)
	flags := append([]string{"-v2=false"}, optFlags(c.Opts)...)
	res := runCLI("jd-top", append(append([]string{}, flags...), "a", "b"), nil, dir)
	if err := cliTrouble(res); err != nil {
		return err
	}
	desc := fmt.Sprintf("jd-top %s a b (a=%s b=%s)", strings.Join(flags, " "), c.A, c.B)
	if res.Status != 0 && res.Status != 1 {
		return viol("%s exits %d: %s", desc, res.Status, res.Stderr)
	}
	equal := v1Node(c.A).Equals(v1Node(c.B), md...)
	if (res.Status == 0) != equal {
		return viol("%s exits %d but Equals under the metadata is %v", desc, res.Status, equal)
	}
	want := v1Node(c.A).Diff(v1Node(c.B), append(md, v1.SetPrecision(0))...).Render()
	// -f=merge selects the merge patch text, which is not what Render gives
	if !jdx.IsMerge(c.Opts) && res.Stdout != want {
		return viol("%s prints\n%q\nthe v1 library renders\n%q", desc, res.Stdout, want)
	}
	// the same run with -o over an existing, longer file
	writeFile(dir, "d", strings.Repeat("stale content of an earlier run\n", 100))
	resO := runCLI("jd-top", append(append([]string{"-o=d"}, flags...), "a", "b"), nil, dir)
	if err := cliTrouble(resO); err != nil {
		return err
	}
	if resO.Status != res.Status || resO.Stdout != "" || readFileOr(dir, "d") != res.Stdout {
		return viol("%s with -o over an existing file: status %d, stdout %q, file %q; expected %q in the file only", desc, resO.Status, resO.Stdout, readFileOr(dir, "d"), res.Stdout)
	}
	resP := runCLI("jd-top", append(append([]string{"-p"}, flags...), "d", "a"), nil, dir)
	if err := cliTrouble(resP); err != nil {
		return err
	}
	if resP.Status != 0 {
		return viol("%s: the printed diff does not apply with -p (status %d): %s\ndiff:\n%s", desc, resP.Status, resP.Stderr, res.Stdout)
	}
	// and the patched document written with -o over a longer file
	writeFile(dir, "out", strings.Repeat("stale content of an earlier run\n", 100))
	resPo := runCLI("jd-top", append(append([]string{"-p", "-o=out"}, flags...), "d", "a"), nil, dir)
	if err := cliTrouble(resPo); err != nil {
		return err
	}
	if resPo.Status != 0 || resPo.Stdout != "" || readFileOr(dir, "out") != resP.Stdout {
		return viol("%s: -p -o over an existing file: status %d, stdout %q, file %q; expected %q in the file only", desc, resPo.Status, resPo.Stdout, readFileOr(dir, "out"), resP.Stdout)
	}
	got, err := v1.ReadJsonString(resP.Stdout)
	if err != nil {
		return viol("%s: -p prints unreadable JSON %q", desc, resP.Stdout)
	}
	if !got.Equals(v1Node(c.B), md...) {
		if jdx.IsMerge(c.Opts) && strings.TrimSpace(res.Stdout) == "{}" {
			// -f=merge prints the RFC 7386 document, not what Render gives, so
			// this round trip is C18's; the document {} for a non-object a and
			// b = {} is its known finding D17 and is not demanded here.
			r.Class("outside:merge-format {} for non-object a (C18, D17)")
			return nil
		}
		return viol("%s: the printed diff applied with -p gives %s, not b\ndiff:\n%s", desc, resP.Stdout, res.Stdout)
	}
	nontrivial := res.Status == 1
	r.Case(fmt.Sprintf("%v", c), nontrivial, "opts="+c.Opts)
	if nontrivial {
		r.Sample(c)
	}
	return nil
}

func genC17CLI(t *rapid.T) CarrierCLICase {
	pc := genPairCase(t, []string{"list", "list", "set", "mset", "set+setkeys:id", "merge"}, func(p *gen.Profile) {
		p.Payload = true
		p.NastyKeys = gen.Chance(t, "nasty", 40)
		p.VoidRoot = gen.Chance(t, "void", 10)
	})
	if jdx.IsMerge(pc.Opts) && (strings.TrimSpace(pc.A) == "" || strings.TrimSpace(pc.B) == "") {
		pc.Opts = "list" // a merge patch document cannot say "no document"
	}
	return CarrierCLICase{A: pc.A, B: pc.B, Opts: pc.Opts, Bin: "jd-top-v1"}
}

func init() { Register("C17", "cli", checkC17CLI) }

func TestC17CLI(t *testing.T) { RunRandom(t, "C17", "cli", genC17CLI, checkC17CLI) }

// ---------------------------------------------------------------- C18

func checkC18(c PairCase, r *rec.Rec) error {
	av, err := val.Parse(c.A)
	if err != nil {
		return fmt.Errorf("bad case: %v", err)
	}
	bv, err := val.Parse(c.B)
	if err != nil {
		return fmt.Errorf("bad case: %v", err)
	}
	md := v1Metadata(c.Opts)
	mk := func() v1.Diff { return v1Node(c.A).Diff(v1Node(c.B), md...) }
	var d v1.Diff
	if msg, p := jdx.Guard(func() { d = mk() }); p {
		return rec.Violated("v1 Diff panicked: %s", msg)
	}
	native := d.Render()
	cls := []string{"opts=" + c.Opts}
	nontrivial := false
	if c.Opts == "list" {
		var ptext string
		var perr error
		if msg, p := jdx.Guard(func() { ptext, perr = mk().RenderPatch() }); p {
			return rec.Violated("v1 RenderPatch panicked: %s", msg)
		}
		if perr != nil {
			// v1 refuses the key "-" (and nothing else in list mode)
			if strings.Contains(native, `"-"`) {
				r.Case(c.A+"|"+c.B+"|"+c.Opts, false, "refused")
				return nil
			}
			return rec.Violated("v1 RenderPatch refuses a list-mode diff: %v\nnative diff:\n%s", perr, native)
		}
		pv, err := val.Parse(ptext)
		if err != nil {
			return rec.Violated("v1 RenderPatch output is not JSON: %v\n%s", err, ptext)
		}
		if err := wellFormed6902(pv); err != nil {
			return rec.Violated("v1 RenderPatch output is not a well-formed JSON Patch: %v\n%s", err, ptext)
		}
		got, err := ref.Patch6902(av, pv)
		if err != nil {
			return rec.Violated("v1: the rendered JSON Patch does not apply to a under RFC 6902: %v\npatch: %s\nnative diff:\n%s", err, ptext, native)
		}
		if !val.Equal(got, bv, val.List) {
			return rec.Violated("v1: the rendered JSON Patch turns a into %s, not into b = %s\npatch: %s\nnative diff:\n%s", val.JSON(got), c.B, ptext, native)
		}
		// read back with the v1 reader
		var d2 v1.Diff
		var rerr error
		if msg, p := jdx.Guard(func() { d2, rerr = v1.ReadPatchString(ptext) }); p {
			return rec.Violated("v1 ReadPatchString panicked: %s\npatch: %s", msg, ptext)
		}
		if rerr != nil {
			return rec.Violated("v1 cannot read its own JSON Patch: %v\npatch: %s", rerr, ptext)
		}
		if err := v1FileAgrees("patch", ptext, d2); err != nil {
			return err
		}
		out := v1Patch(v1Node(c.A), d2)
		if !out.OK() {
			return rec.Violated("v1: its own JSON Patch, read back, %s on a\npatch: %s\nnative diff:\n%s", out.word(), ptext, native)
		}
		if !out.Node.Equals(v1Node(c.B)) {
			return rec.Violated("v1: its own JSON Patch, read back, turns a into %s, not into b = %s\npatch: %s", out.Node.Json(), c.B, ptext)
		}
		pc, nt := patchClasses(pv)
		cls = append(cls, pc...)
		nontrivial = nt
		if numberLikeKeyInPatch(pv) {
			cls = append(cls, "integer-looking-key")
			nontrivial = true
		}
		if strings.Contains(ptext, `/-"`) {
			cls = append(cls, "append-token")
			nontrivial = true
		}
	} else {
		if val.HasNull(av) || val.HasNull(bv) || val.IsVoid(av) || val.IsVoid(bv) {
			return fmt.Errorf("bad case: null-free, non-void documents wanted")
		}
		if v1Node(c.A).Equals(v1Node(c.B), md...) {
			r.Class("skipped:equal")
			return nil
		}
		var mtext string
		var merr error
		if msg, p := jdx.Guard(func() { mtext, merr = mk().RenderMerge() }); p {
			return rec.Violated("v1 RenderMerge panicked: %s", msg)
		}
		if merr != nil {
			return rec.Violated("v1 RenderMerge fails on a merge-mode diff: %v\nnative diff:\n%s", merr, native)
		}
		mv, err := val.Parse(mtext)
		if err != nil || val.IsVoid(mv) {
			return rec.Violated("v1 RenderMerge output is not a JSON document: %q", mtext)
		}
		got := ref.MergePatch(av, mv)
		if !val.Equal(got, bv, val.List) {
			return rec.Violated("v1: MergePatch(a, %s) = %s, not b = %s\nnative diff:\n%s", mtext, val.JSON(got), c.B, native)
		}
		viol := rec.Violated
		_, aObj := av.(map[string]val.V)
		if bo, ok := bv.(map[string]val.V); ok && len(bo) == 0 && !aObj {
			viol = func(f string, a ...interface{}) error { return rec.Known("D17", f, a...) }
		}
		var d2 v1.Diff
		var rerr error
		if msg, p := jdx.Guard(func() { d2, rerr = v1.ReadMergeString(mtext) }); p {
			return rec.Violated("v1 ReadMergeString panicked: %s", msg)
		}
		if rerr != nil {
			return viol("v1 cannot read its own merge patch %s: %v", mtext, rerr)
		}
		if err := v1FileAgrees("merge", mtext, d2); err != nil {
			return err
		}
		out := v1Patch(v1Node(c.A), d2)
		if !out.OK() {
			return viol("v1: its own merge patch %s, read back, %s on a", mtext, out.word())
		}
		if !out.Node.Equals(v1Node(c.B), md...) {
			return viol("v1: its own merge patch %s, read back, turns a = %s into %s, not into b = %s", mtext, c.A, showText(out.Node.Json()), c.B)
		}
		mc := mergePatchClasses(mv)
		cls = append(cls, mc...)
		for _, k := range mc {
			if k == "patch-has-null" || k == "patch-has-nested-{}" || k == "patch-is-{}" {
				nontrivial = true
			}
		}
	}
	r.Case(c.A+"|"+c.B+"|"+c.Opts, nontrivial, cls...)
	if nontrivial {
		r.Sample(c)
	}
	return nil
}

func numberLikeKeyInPatch(p val.V) bool {
	ops, _ := p.([]val.V)
	for _, o := range ops {
		m, _ := o.(map[string]val.V)
		ps, _ := m["path"].(string)
		toks, _ := ref.ParsePointer(ps)
		for _, tk := range toks {
			if numberLikeKey.MatchString(tk) && (tk != "0" && (tk[0] == '0' || tk[0] == '+' || tk[0] == '-')) {
				return true
			}
		}
	}
	return false
}

func genC18(t *rapid.T) PairCase {
	if gen.Chance(t, "merge", 40) {
		pc := genC11(t)
		pc.Opts = "merge"
		return pc
	}
	a, b, p18 := genListPairNasty(t)
	if gen.Chance(t, "pathTwins", 6) {
		a, b = gen.PathTwins(t, a, b, p18)
	}
	if gen.Chance(t, "bigNumbers", 5) {
		// objects as old / new values that hold numbers at the edge of int64
		big := gen.Pick(t, "bigNumber", []float64{9223372036854775808, 9223372036854775807, 1e19, -9223372036854775808, 4611686018427387904})
		a = map[string]val.V{"o": map[string]val.V{"n": big, "m": 1.0}, "keep": a}
		b = map[string]val.V{"o": gen.Pick(t, "bigNew", []val.V{5.0, map[string]val.V{"n": big}, []val.V{big}}), "keep": b}
		if gen.Chance(t, "bigSwap", 50) {
			a, b = b, a
		}
	}
	if gen.Chance(t, "integerTwins", 6) {
		// an object that holds a key spelled like a plain integer and gains,
		// loses or changes a member spelled like the same integer differently
		canon := gen.Pick(t, "canonKey", []string{"1", "0", "7", "10"})
		other := map[string][]string{"1": {"01", "+1", "1.0", "1e0", "001"}, "0": {"-0", "00", "+0", "0.0"}, "7": {"007", "07", "+7"}, "10": {"010", "1e1", "+10"}}[canon]
		twin := gen.Pick(t, "twinKey", other)
		if gen.Chance(t, "negative", 20) {
			canon, twin = "-"+canon, "-"+twin
		}
		ao, bo := map[string]val.V{canon: 1.0, "z": 0.0}, map[string]val.V{canon: 1.0, "z": 0.0}
		switch gen.Int(t, "twinOp", 0, 3) {
		case 0:
			bo[twin] = 2.0
		case 1:
			ao[twin] = 2.0
		case 2:
			ao[twin], bo[twin] = 2.0, 3.0
		default:
			ao[twin] = 2.0
			bo[twin] = 2.0
			bo[canon] = 5.0
		}
		var av, bv val.V = ao, bo
		switch gen.Int(t, "twinWrap", 0, 2) {
		case 1:
			av, bv = map[string]val.V{"o": ao}, map[string]val.V{"o": bo}
		case 2:
			av, bv = []val.V{0.0, ao}, []val.V{0.0, bo}
		}
		return PairCase{A: val.JSON(av), B: val.JSON(bv), Opts: "list"}
	}
	return PairCase{A: val.JSON(a), B: val.JSON(b), Opts: "list"}
}

func init() { Register("C17", "random", checkC17); Register("C18", "random", checkC18) }

func TestC17Random(t *testing.T) { RunRandom(t, "C17", "random", genC17, checkC17) }
func TestC18Random(t *testing.T) { RunRandom(t, "C18", "random", genC18, checkC18) }

// ---- C18 on documents that came out of a v1 Patch
//
// a' = Patch(A, A.Diff(X)) (strict, list mode) is a document like any other.
// Its diff against B must render to RFC documents that are just as faithful,
// and the read-back diff must turn a fresh a' into B.

func checkC18Patched(c PatchedCase, r *rec.Rec) error {
	mkA := func() v1.JsonNode {
		out := v1Patch(v1Node(c.A), v1Node(c.A).Diff(v1Node(c.X)))
		if !out.OK() {
			return nil
		}
		return out.Node
	}
	var a0 v1.JsonNode
	if msg, p := jdx.Guard(func() { a0 = mkA() }); p || a0 == nil {
		r.Class("skipped:precondition: the strict diff applies (C17) " + msg)
		return nil
	}
	pv, err := val.Parse(a0.Json())
	if err != nil {
		return rec.Violated("v1: the patched document is not readable JSON: %v", err)
	}
	bv, err := val.Parse(c.B)
	if err != nil {
		return fmt.Errorf("bad case: %v", err)
	}
	md := v1Metadata(c.Opts)
	desc := fmt.Sprintf("a' = v1 Patch(%s, diff to %s) = %s, b = %s, %s", c.A, c.X, val.JSON(pv), c.B, c.Opts)
	var cls []string
	nontrivial := c.A != c.X
	if c.Opts == "list" {
		var ptext string
		var perr error
		if msg, p := jdx.Guard(func() { ptext, perr = mkA().Diff(v1Node(c.B)).RenderPatch() }); p {
			return rec.Violated("%s: v1 RenderPatch panicked: %s", desc, msg)
		}
		if perr != nil {
			r.Class("skipped:refused")
			return nil
		}
		patch, err := val.Parse(ptext)
		if err != nil {
			return rec.Violated("%s: v1 RenderPatch output is not JSON: %v\n%s", desc, err, ptext)
		}
		got, err := ref.Patch6902(pv, patch)
		if err != nil {
			return rec.Violated("%s: the rendered JSON Patch does not apply to a' under RFC 6902: %v\npatch: %s", desc, err, ptext)
		}
		if !val.Equal(got, bv, val.List) {
			return rec.Violated("%s: the rendered JSON Patch turns a' into %s\npatch: %s", desc, val.JSON(got), ptext)
		}
		d2, rerr := v1.ReadPatchString(ptext)
		if rerr != nil {
			return rec.Violated("%s: v1 cannot read its own JSON Patch: %v\npatch: %s", desc, rerr, ptext)
		}
		out := v1Patch(mkA(), d2)
		if !out.OK() {
			return rec.Violated("%s: its own JSON Patch, read back, %s on a'\npatch: %s", desc, out.word(), ptext)
		}
		if !out.Node.Equals(v1Node(c.B)) {
			return rec.Violated("%s: its own JSON Patch, read back, turns a' into %s\npatch: %s", desc, out.Node.Json(), ptext)
		}
		cls = append(cls, "patch")
	} else {
		if val.HasNull(pv) || val.HasNull(bv) || val.IsVoid(pv) || val.IsVoid(bv) {
			r.Class("skipped:null-or-void")
			return nil
		}
		if mkA().Equals(v1Node(c.B), md...) {
			r.Class("skipped:equal")
			return nil
		}
		var mtext string
		var merr error
		if msg, p := jdx.Guard(func() { mtext, merr = mkA().Diff(v1Node(c.B), md...).RenderMerge() }); p {
			return rec.Violated("%s: v1 RenderMerge panicked: %s", desc, msg)
		}
		if merr != nil {
			return rec.Violated("%s: v1 RenderMerge fails on a merge-mode diff: %v", desc, merr)
		}
		mv, err := val.Parse(mtext)
		if err != nil || val.IsVoid(mv) {
			return rec.Violated("%s: v1 RenderMerge output is not a JSON document: %q", desc, mtext)
		}
		if got := ref.MergePatch(pv, mv); !val.Equal(got, bv, val.List) {
			return rec.Violated("%s: MergePatch(a', %s) = %s", desc, mtext, val.JSON(got))
		}
		viol := rec.Violated
		_, aObj := pv.(map[string]val.V)
		if bo, ok := bv.(map[string]val.V); ok && len(bo) == 0 && !aObj {
			viol = func(f string, a ...interface{}) error { return rec.Known("D17", f, a...) }
		}
		d2, rerr := v1.ReadMergeString(mtext)
		if rerr != nil {
			return viol("%s: v1 cannot read its own merge patch %s: %v", desc, mtext, rerr)
		}
		out := v1Patch(mkA(), d2)
		if !out.OK() {
			return viol("%s: its own merge patch %s, read back, %s on a'", desc, mtext, out.word())
		}
		if !out.Node.Equals(v1Node(c.B), md...) {
			return viol("%s: its own merge patch %s, read back, turns a' into %s", desc, mtext, showText(out.Node.Json()))
		}
		// the native merge diff itself, on a fresh a'
		out2 := v1Patch(mkA(), mkA().Diff(v1Node(c.B), md...))
		if !out2.OK() || !out2.Node.Equals(v1Node(c.B), md...) {
			return viol("%s: the merge-mode diff of a' and b does not turn a fresh a' into b (%s)", desc, out2.word())
		}
		cls = append(cls, "merge")
	}
	r.Case(fmt.Sprintf("%v", c), nontrivial, cls...)
	if nontrivial {
		r.Sample(c)
	}
	return nil
}

func genC18Patched(t *rapid.T) PatchedCase {
	p := gen.Profile{ArrayBias: 60, MaxArr: 5, NullFree: true}
	a := gen.Doc(t, p)
	x := gen.EditN(t, a, p, 1, 3)
	var b val.V
	switch gen.Int(t, "bKind", 0, 3) {
	case 0:
		b = gen.EditN(t, x, p, 1, 3)
	case 1:
		b = gen.Doc(t, p)
	case 2:
		b = val.Clone(a)
	default:
		// arrays of x replaced by something else
		b = replaceArrays(t, x)
	}
	return PatchedCase{A: val.JSON(a), X: val.JSON(x), PatchOpts: "list", B: val.JSON(b), Opts: gen.Pick(t, "opts", []string{"list", "merge", "merge"})}
}

func replaceArrays(t *rapid.T, v val.V) val.V {
	switch x := v.(type) {
	case []val.V:
		if gen.Chance(t, "replaceIt", 50) {
			return gen.Pick(t, "replacement", []val.V{[]val.V{9.0}, "s", map[string]val.V{"o": 1.0}, []val.V{}, 1.0})
		}
		out := make([]val.V, len(x))
		for i, e := range x {
			out[i] = replaceArrays(t, e)
		}
		return out
	case map[string]val.V:
		out := map[string]val.V{}
		for _, k := range val.Keys(x) {
			out[k] = replaceArrays(t, x[k])
		}
		return out
	}
	return v
}

func init() { Register("C18", "patched", checkC18Patched) }

func TestC18Patched(t *testing.T) { RunRandom(t, "C18", "patched", genC18Patched, checkC18Patched) }

// v1FileAgrees: the v1 file entry points (ReadDiffFile, ReadPatchFile,
// ReadMergeFile) read what the string entry points read; tried on one text
// in sixteen.
func v1FileAgrees(kind, text string, fromString v1.Diff) error {
	if val.FNV64(kind+text)%16 != 0 {
		return nil
	}
	dir, cleanup := caseDir()
	defer cleanup()
	writeFile(dir, "d.txt", text)
	path := filepath.Join(dir, "d.txt")
	var df v1.Diff
	var ferr error
	msg, p := jdx.Guard(func() {
		switch kind {
		case "jd":
			df, ferr = v1.ReadDiffFile(path)
		case "patch":
			df, ferr = v1.ReadPatchFile(path)
		default:
			df, ferr = v1.ReadMergeFile(path)
		}
	})
	if p {
		return rec.Violated("v1 file reader (%s) panicked: %s\ntext:\n%s", kind, msg, text)
	}
	if ferr != nil {
		return rec.Violated("v1 file reader (%s) rejects a file holding what the string reader accepts: %v\ntext:\n%s", kind, ferr, text)
	}
	if df.Render() != fromString.Render() {
		return rec.Violated("v1 file reader (%s) gives another diff than the string reader\nfile:\n%s\nstring:\n%s\ntext:\n%s", kind, df.Render(), fromString.Render(), text)
	}
	return nil
}
