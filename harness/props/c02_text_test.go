package props

import (
	"fmt"
	"strings"
	"testing"

	jd "github.com/josephburnett/jd/v2"
	"pgregory.net/rapid"

	"verifjd/gen"
	"verifjd/jdx"
	"verifjd/rec"
	"verifjd/ref"
	"verifjd/val"
)

// ---- domain C: diff TEXT the reader accepts, whoever wrote it.
//
// The statement covers every hunk shape the library "emits or accepts". The
// text here is a real rendering damaged line by line (or arbitrary bytes from
// the native fuzzer): whenever ReadDiffString accepts it, the diff it returns
// must survive Render / ReadDiffString unchanged and act like its re-read
// twin on documents.

type DiffTextCase struct {
	Text    string   `json:"text"`
	Targets []string `json:"targets"`
}

func checkC02Text(c DiffTextCase, r *rec.Rec) error {
	for _, tg := range c.Targets {
		if _, err := val.Parse(tg); err != nil {
			return fmt.Errorf("bad case: %v", err)
		}
	}
	var d0 jd.Diff
	var rerr error
	if msg, p := jdx.Guard(func() { d0, rerr = jd.ReadDiffString(c.Text) }); p {
		return rec.Violated("ReadDiffString panicked on %q: %s", c.Text, msg)
	}
	if rerr != nil {
		r.Case(c.Text, false, "reader-rejects")
		return nil
	}
	mk := func() jd.Diff {
		d, _ := jd.ReadDiffString(c.Text)
		return d
	}
	targets := append([]string{}, c.Targets...)
	if hs, err := jdx.ToHunks(d0); err == nil && len(hs) > 0 {
		if ft, ok := fitTarget(hs[0]); ok {
			targets = append(targets, val.JSON(ft))
		}
	}
	cls, nontrivial, err := carrierCheck(mk, targets, "", "", r)
	if err != nil {
		if v, ok := err.(*rec.Violation); ok {
			v.Msg = "text accepted by ReadDiffString:\n" + c.Text + "\n" + v.Msg
		}
		return err
	}
	canonical := d0.Render() == c.Text
	if !canonical {
		cls = append(cls, "accepted-non-canonical-text")
	}
	cls = append(cls, "reader-accepts")
	r.Case(c.Text+"|"+strings.Join(c.Targets, "|"), nontrivial || !canonical, cls...)
	if nontrivial || !canonical {
		r.Sample(c)
	}
	return nil
}

var diffLinePool = []string{
	"[", "]", "@ []", "@ [0]", "@ [-1]", "@ [\"a\"]", "@ [\"a\",0]", "@ [{}]", "@ [[]]", "@ [\"a\",{}]", "@ [[\"set\"],{}]", "@ [[\"multiset\"],[]]",
	"^ {\"Merge\":true}", "^ {\"Merge\":false}", "^ \"SET\"", "^ \"MULTISET\"", "^ {\"setkeys\":[\"id\"]}", "^ {\"Version\":2}", "^ {\"Version\":\"2\"}", "^ {\"Merge\":\"yes\"}", "^ {\"Merge\":null}", "^ {\"setkeys\":\"id\"}", "^ [\"MERGE\"]",
	"+", "-", "+ 1", "- 1", "  1", "+ {}", "- []", "  {\"a\":1}", "+ \"x\"", "- \"x\"", "  ", " ", "", "+1", "@", "^", "@ [\"a\"", "- 1 2", "+ 1e999", "# note", "\\ No newline at end of file",
	"@ [{\"id\":1},\"v\"]", "@ [{\"id\":1}]", "@ [\"a\",-1]", "@ [1.5]", "@ [\"a\",1e2]", "@ [null]", "@ [true]",
}

func genC02Text(t *rapid.T) DiffTextCase {
	pc := genPairCase(t, c01OptSets, func(p *gen.Profile) {
		if gen.Chance(t, "payload", 25) {
			p.Payload = true
			p.NastyKeys = true
		}
		p.VoidRoot = gen.Chance(t, "void", 10)
	})
	var text string
	jdx.Guard(func() {
		text = jdx.NodeText(pc.A).Diff(jdx.NodeText(pc.B), jdx.Options(pc.Opts)...).Render()
	})
	lines := strings.Split(strings.TrimSuffix(text, "\n"), "\n")
	if text == "" {
		lines = nil
	}
	for k := gen.Int(t, "nDamage", 0, 3); k > 0; k-- {
		n := len(lines)
		switch op := gen.Int(t, "damage", 0, 9); {
		case op == 0 && n > 0: // drop a line
			i := gen.Int(t, "at", 0, n-1)
			lines = append(lines[:i:i], lines[i+1:]...)
		case op == 1 && n > 0: // repeat a line
			i := gen.Int(t, "at", 0, n-1)
			lines = append(lines[:i+1:i+1], lines[i:]...)
		case op == 2 && n > 1: // exchange neighbours
			i := gen.Int(t, "at", 0, n-2)
			lines[i], lines[i+1] = lines[i+1], lines[i]
		case op == 3 && n > 0: // change the marker of a line
			i := gen.Int(t, "at", 0, n-1)
			if len(lines[i]) > 0 {
				lines[i] = gen.Pick(t, "marker", []string{"+", "-", " ", "@", "^", "[", "]"}) + lines[i][1:]
			}
		case op == 4: // a line from the pool
			i := gen.Int(t, "at", 0, n)
			l := gen.Pick(t, "line", diffLinePool)
			lines = append(lines[:i:i], append([]string{l}, lines[i:]...)...)
		case op == 5 && n > 0: // blanks
			i := gen.Int(t, "at", 0, n-1)
			switch gen.Int(t, "blank", 0, 3) {
			case 0:
				lines[i] += " "
			case 1:
				lines[i] += "\t"
			case 2:
				lines[i] += "\r"
			default:
				if len(lines[i]) > 1 {
					lines[i] = lines[i][:1] + " " + lines[i][1:]
				}
			}
		case op == 6 && n > 0: // move a whole hunk: rotate the lines at an @
			var ats []int
			for i, l := range lines {
				if strings.HasPrefix(l, "@") || strings.HasPrefix(l, "^") {
					ats = append(ats, i)
				}
			}
			if len(ats) >= 2 {
				i := ats[gen.Int(t, "hunk", 1, len(ats)-1)]
				lines = append(append([]string{}, lines[i:]...), lines[:i]...)
			}
		case op == 7 && n > 0: // cut the text short
			lines = lines[:gen.Int(t, "cut", 0, n)]
		case op == 8 && n > 0: // edit a value in place
			i := gen.Int(t, "at", 0, n-1)
			if len(lines[i]) > 2 {
				lines[i] = lines[i][:2] + gen.Pick(t, "valueText", []string{"1", "1.0", "1e0", "\"a\"", "\"\\u0061\"", " 2", "{}", "{ }", "[ ]", "[1, 2]", "{\"a\" : 1}", "null", "tru", "01", "\"a", "1 ]"})
			}
		default: // second diff appended
			lines = append(lines, gen.Pick(t, "line", diffLinePool), gen.Pick(t, "line2", diffLinePool))
		}
	}
	out := strings.Join(lines, "\n")
	if len(lines) > 0 && !gen.Chance(t, "noFinalNewline", 10) {
		out += "\n"
	}
	c := DiffTextCase{Text: out, Targets: []string{pc.A}}
	if gen.Chance(t, "otherTarget", 40) {
		c.Targets = append(c.Targets, val.JSON(gen.Doc(t, gen.Profile{})))
	}
	return c
}

func init() { Register("C02", "text", checkC02Text) }

func TestC02Text(t *testing.T) { RunRandom(t, "C02", "text", genC02Text, checkC02Text) }

// Native coverage-guided fuzzing of the same oracle (thorough tier).
func FuzzC02Text(f *testing.F) {
	for _, s := range fuzzSeeds["diff"] {
		f.Add(s, `{"a":[1,2,3],"b":{"c":1}}`)
		f.Add(s, `[1,2,3]`)
	}
	for _, l := range diffLinePool {
		f.Add("@ [\"a\",1]\n"+l+"\n- 2\n"+l+"\n", `{"a":[1,2,3]}`)
	}
	r := rec.New("C02", "fuzz")
	f.Fuzz(func(t *testing.T, text, target string) {
		if _, err := valParse(target); err != nil {
			target = "[1,2,3]"
		}
		c := DiffTextCase{Text: text, Targets: []string{target}}
		err := guarded(checkC02Text, c, r)
		if err != nil && !r.Suppress(err) {
			if _, ok := err.(*rec.Violation); ok {
				r.WriteFail(c, err)
			}
			t.Fatalf("%v", err)
		}
	})
}

var _ = ref.Hunk{}
