package props

import (
	"fmt"
	"os"
	"testing"

	"verifjd/rec"
)

// TestReplay re-executes one replay file through its oracle, without rapid.
func TestReplay(t *testing.T) {
	p := os.Getenv("VERIF_REPLAY")
	if p == "" {
		t.Skip("VERIF_REPLAY not set")
	}
	rf, verr, err := replayOne(resolve(p), true)
	if err != nil {
		fmt.Printf("REPLAY-ERROR %s: %v\n", p, err)
		t.Fatal(err)
	}
	if verr != nil {
		fmt.Printf("REPLAY-FAIL property=%s leg=%s: %v\n", rf.Prop, rf.Leg, verr)
		t.Fail()
		return
	}
	fmt.Printf("REPLAY-PASS property=%s leg=%s\n", rf.Prop, rf.Leg)
}

// TestKnown replays the entries of known-findings.txt for VERIF_PROP:
// a finding: entry that still fails in the recorded way prints a
// KNOWN-FINDING line; a fixed: entry that fails is a violation.
func TestKnown(t *testing.T) {
	prop := os.Getenv("VERIF_PROP")
	if prop == "" {
		t.Skip("VERIF_PROP not set")
	}
	for _, e := range rec.Entries() {
		if e.Prop != prop || e.Input == "" {
			continue
		}
		_, verr, err := replayOne(resolve(e.Input), true)
		if err != nil {
			fmt.Printf("KNOWN-ERROR property=%s id=%s input=%s: %v\n", prop, e.ID, e.Input, err)
			t.Fail()
			continue
		}
		switch {
		case e.Fixed && verr != nil:
			fmt.Printf("VIOLATION property=%s replay=%s\n", prop, resolve(e.Input))
			fmt.Printf("  regression of fixed entry %s: %v\n", e.ID, verr)
			t.Fail()
		case e.Fixed:
			fmt.Printf("FIXED-OK property=%s id=%s\n", prop, e.ID)
		case verr == nil:
			fmt.Printf("KNOWN-GONE property=%s id=%s (listed finding no longer fails)\n", prop, e.ID)
		default:
			v, ok := verr.(*rec.Violation)
			if ok && v.KnownID == e.ID {
				fmt.Printf("KNOWN-FINDING: property=%s id=%s %s\n", prop, e.ID, e.Text)
			} else {
				fmt.Printf("VIOLATION property=%s replay=%s\n", prop, resolve(e.Input))
				fmt.Printf("  input of listed finding %s fails in a different way: %v\n", e.ID, verr)
				t.Fail()
			}
		}
	}
}

// TestFpUnion counts distinct fingerprints over the files listed in
// VERIF_FP_LIST (one path per line, 8 bytes little-endian per fingerprint).
func TestFpUnion(t *testing.T) {
	lst := os.Getenv("VERIF_FP_LIST")
	if lst == "" {
		t.Skip("VERIF_FP_LIST not set")
	}
	fmt.Printf("FP-UNION %d\n", fpUnion(lst))
}
