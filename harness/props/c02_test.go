package props

import (
	"fmt"
	"path/filepath"
	"strings"
	"testing"

	jd "github.com/josephburnett/jd/v2"
	"pgregory.net/rapid"

	"verifjd/gen"
	"verifjd/jdx"
	"verifjd/rec"
	"verifjd/ref"
	"verifjd/val"
)

// C02 — native jd diff text is a lossless carrier of a diff.

// HunkSpec is a JSON-serialisable hunk built from public fields only.
// Values are JSON texts; "" is the void value (array boundary in context,
// deletion in a merge hunk's Add).
type HunkSpec struct {
	Merge  bool     `json:"merge,omitempty"`
	Path   string   `json:"path"`
	Before []string `json:"before,omitempty"`
	Remove []string `json:"remove,omitempty"`
	Add    []string `json:"add,omitempty"`
	After  []string `json:"after,omitempty"`
}

func specPath(s string) ([]ref.PathElem, error) {
	v, err := val.Parse(s)
	if err != nil {
		return nil, err
	}
	arr, ok := v.([]val.V)
	if !ok {
		return nil, fmt.Errorf("path is not an array")
	}
	var out []ref.PathElem
	for _, e := range arr {
		switch x := e.(type) {
		case string:
			out = append(out, ref.PathElem{Kind: ref.Key, Key: x})
		case float64:
			out = append(out, ref.PathElem{Kind: ref.Index, Index: int(x)})
		case map[string]val.V:
			if len(x) == 0 {
				out = append(out, ref.PathElem{Kind: ref.SetElem})
			} else {
				out = append(out, ref.PathElem{Kind: ref.SetKeys, Keys: x})
			}
		case []val.V:
			if len(x) == 0 {
				out = append(out, ref.PathElem{Kind: ref.MultisetElem})
			} else if o, ok := x[0].(map[string]val.V); ok && len(x) == 1 {
				out = append(out, ref.PathElem{Kind: ref.MultisetKeys, Keys: o})
			} else {
				return nil, fmt.Errorf("bad multiset path element")
			}
		default:
			return nil, fmt.Errorf("bad path element %v", e)
		}
	}
	return out, nil
}

func specVals(xs []string) ([]val.V, error) {
	if xs == nil {
		return nil, nil
	}
	out := make([]val.V, len(xs))
	for i, s := range xs {
		v, err := val.Parse(s)
		if err != nil {
			return nil, err
		}
		out[i] = v
	}
	return out, nil
}

func (h HunkSpec) Hunk() (ref.Hunk, error) {
	p, err := specPath(h.Path)
	if err != nil {
		return ref.Hunk{}, err
	}
	out := ref.Hunk{Merge: h.Merge, Path: p}
	if out.Before, err = specVals(h.Before); err != nil {
		return out, err
	}
	if out.Remove, err = specVals(h.Remove); err != nil {
		return out, err
	}
	if out.Add, err = specVals(h.Add); err != nil {
		return out, err
	}
	if out.After, err = specVals(h.After); err != nil {
		return out, err
	}
	return out, nil
}

func specsToHunks(specs []HunkSpec) ([]ref.Hunk, error) {
	out := make([]ref.Hunk, len(specs))
	for i, s := range specs {
		h, err := s.Hunk()
		if err != nil {
			return nil, err
		}
		out[i] = h
	}
	return out, nil
}

func valsKey(vs []val.V, rd val.Reading, dropVoid bool) string {
	parts := make([]string, 0, len(vs))
	for _, v := range vs {
		if dropVoid && val.IsVoid(v) {
			continue
		}
		parts = append(parts, val.Canon(v, rd))
	}
	return strings.Join(parts, ";")
}

// sameHunk compares two hunks field by field. Absent and empty are the
// same; in a strict hunk a void among the removed or added values is the
// same as no value (it renders as no line and Patch reads "no value" as
// void); values are compared under the array reading the diff was made for.
func sameHunk(a, b ref.Hunk, rd val.Reading) string {
	valsKey := func(vs []val.V) string { return valsKey(vs, rd, false) }
	strictVals := func(vs []val.V) string { return valsKey(vs) }
	if !a.Merge {
		strictVals = func(vs []val.V) string { return valsKeyDrop(vs, rd) }
	}
	if a.Merge != b.Merge {
		return "merge flag"
	}
	if ref.PathJSON(a.Path) != ref.PathJSON(b.Path) {
		return "path"
	}
	if valsKey(a.Before) != valsKey(b.Before) {
		return "before"
	}
	if strictVals(a.Remove) != strictVals(b.Remove) {
		return "remove"
	}
	if strictVals(a.Add) != strictVals(b.Add) {
		return "add"
	}
	if valsKey(a.After) != valsKey(b.After) {
		return "after"
	}
	return ""
}

func valsKeyDrop(vs []val.V, rd val.Reading) string { return valsKey(vs, rd, true) }

// longStringPair reports whether a hunk replaces one string of more than n
// bytes by another.
func longStringPair(hs []ref.Hunk, n int) bool {
	for _, h := range hs {
		if len(h.Remove) == 1 && len(h.Add) == 1 {
			x, ok1 := h.Remove[0].(string)
			y, ok2 := h.Add[0].(string)
			if ok1 && ok2 && len(x) > n && len(y) > n {
				return true
			}
		}
	}
	return false
}

// hasLongString reports whether v holds a string of more than n bytes.
func hasLongString(v val.V, n int) bool {
	switch x := v.(type) {
	case string:
		return len(x) > n
	case []val.V:
		for _, e := range x {
			if hasLongString(e, n) {
				return true
			}
		}
	case map[string]val.V:
		for _, e := range x {
			if hasLongString(e, n) {
				return true
			}
		}
	}
	return false
}

var ansi = strings.NewReplacer("\x1b[0m", "", "\x1b[31m", "", "\x1b[32m", "")

// readerTransitions replays the reader's line automaton over a rendered
// text and names the (state, line kind) transitions it takes.
func readerTransitions(text string) []string {
	state := "INIT"
	var out []string
	for _, line := range strings.Split(text, "\n") {
		if line == "" {
			continue
		}
		k := line[:1]
		out = append(out, "tr:"+state+">"+k)
		switch k {
		case "^":
			state = "META"
		case "@":
			state = "AT"
		case "[":
			state = "BEFORE"
		case "]":
			state = "AFTER"
		case " ":
			if state == "AT" || state == "BEFORE" {
				state = "BEFORE"
			} else {
				state = "AFTER"
			}
		case "-":
			state = "REMOVE"
		case "+":
			state = "ADD"
		}
	}
	return dedupStrings(out)
}

// carrierCheck is the core of C02 for one diff value and target documents.
// wantB, if non-empty, is the JSON of the document that d2 must produce
// from targets[0] (domain A).
func carrierCheck(mk func() jd.Diff, targets []string, wantB string, opts string, r *rec.Rec) ([]string, bool, error) {
	// Patch may alias nodes of the diff it is given into its result, so
	// every Patch call below gets a diff value of its own.
	d := mk()
	hs, err := jdx.ToHunks(d)
	if err != nil {
		return nil, false, rec.Violated("diff holds an unreadable node: %v", err)
	}
	var text string
	if msg, p := jdx.Guard(func() { text = d.Render() }); p {
		return nil, false, rec.Violated("Render panicked: %s", msg)
	}
	var d2 jd.Diff
	var rerr error
	if msg, p := jdx.Guard(func() { d2, rerr = jd.ReadDiffString(text) }); p {
		return nil, false, rec.Violated("ReadDiffString panicked: %s\ntext:\n%s", msg, text)
	}
	if rerr != nil {
		return nil, false, rec.Violated("jd cannot read its own rendering: %v\ntext:\n%s", rerr, text)
	}
	// the file entry point reads what the string entry point reads (one text in sixteen)
	if val.FNV64(text)%16 == 0 {
		dir, cleanup := caseDir()
		writeFile(dir, "d.jd", text)
		var df jd.Diff
		var ferr error
		msg, p := jdx.Guard(func() { df, ferr = jd.ReadDiffFile(filepath.Join(dir, "d.jd")) })
		cleanup()
		if p {
			return nil, false, rec.Violated("ReadDiffFile panicked: %s\ntext:\n%s", msg, text)
		}
		if ferr != nil {
			return nil, false, rec.Violated("ReadDiffFile rejects a file holding jd's own rendering: %v\ntext:\n%s", ferr, text)
		}
		if df.Render() != d2.Render() {
			return nil, false, rec.Violated("ReadDiffFile gives another diff than ReadDiffString\nfile:\n%s\nstring:\n%s", df.Render(), d2.Render())
		}
	}
	text2 := d2.Render()
	if text2 != text {
		return nil, false, rec.Violated("re-rendering differs\nfirst:\n%s\nsecond:\n%s", text, text2)
	}
	hs2, err := jdx.ToHunks(d2)
	if err != nil {
		return nil, false, rec.Violated("re-read diff holds an unreadable node: %v", err)
	}
	if len(hs) != len(hs2) {
		return nil, false, rec.Violated("diff has %d hunks, re-read diff has %d\ntext:\n%s", len(hs), len(hs2), text)
	}
	for i := range hs {
		if f := sameHunk(hs[i], hs2[i], jdx.Reading(opts)); f != "" {
			return nil, false, rec.Violated("hunk %d differs in %s after the text round trip: %s vs %s\ntext:\n%s", i, f, hs[i], hs2[i], text)
		}
	}
	// Colour adds the three ANSI sequences and nothing else. (The colour
	// renderer aligns the characters of a replaced string with a quadratic
	// table; very long string pairs are left out of this leg.)
	if !longStringPair(hs, 3000) {
		var coloured string
		if msg, p := jdx.Guard(func() { coloured = d.Render(jd.COLOR) }); p {
			return nil, false, rec.Violated("Render(COLOR) panicked: %s", msg)
		}
		if ansi.Replace(coloured) != text {
			return nil, false, rec.Violated("colour rendering is not the plain rendering plus ANSI sequences\nplain:\n%q\ncolour:\n%q", text, coloured)
		}
	}
	// Identical effect on documents.
	bothApplied := false
	for i, tgt := range targets {
		d2fresh, err := jd.ReadDiffString(text)
		if err != nil {
			return nil, false, rec.Violated("second read of the same text fails: %v", err)
		}
		o1 := jdx.Patch(jdx.NodeText(tgt), mk())
		o2 := jdx.Patch(jdx.NodeText(tgt), d2fresh)
		if o1.OK() != o2.OK() {
			return nil, false, rec.Violated("on %s the diff %s but the re-read diff %s\ntext:\n%s", tgt, okWord(o1), okWord(o2), text)
		}
		if o1.OK() {
			bothApplied = true
			if o1.Node.Json() != o2.Node.Json() && (jdx.Reading(opts) == val.List || !o1.Node.Equals(o2.Node, jdx.Options(opts)...)) {
				return nil, false, rec.Violated("on %s the diff gives %s, the re-read diff %s\ntext:\n%s", tgt, o1.Node.Json(), o2.Node.Json(), text)
			}
		}
		if i == 0 && wantB != "" {
			if !o2.OK() {
				return nil, false, rec.Violated("the re-read diff does not apply to a: %s\ntext:\n%s", okWord(o2), text)
			}
			if !o2.Node.Equals(jdx.NodeText(wantB), jdx.Options(opts)...) {
				return nil, false, rec.Violated("the re-read diff turns a into %s, not into b = %s\ntext:\n%s", o2.Node.Json(), wantB, text)
			}
		}
	}
	cls := readerTransitions(text)
	if bothApplied {
		cls = append(cls, "applied-somewhere")
	}
	nontrivial := len(hs) >= 2 || hasRealContext(hs) || strings.Contains(text, "^ ") || strings.Contains(text, "\\")
	for _, h := range hs {
		if len(h.Path) > 0 {
			k := h.Path[len(h.Path)-1].Kind
			if (k == ref.SetElem || k == ref.MultisetElem) && len(h.Remove)+len(h.Add) >= 2 {
				nontrivial = true
				cls = append(cls, "multi-value-set-hunk")
			}
		}
		for _, a := range h.Add {
			if val.IsVoid(a) {
				cls = append(cls, "void-addition")
			}
		}
		if len(h.Before) > 1 || len(h.After) > 1 {
			cls = append(cls, "two-line-context")
		}
	}
	if strings.Contains(text, "\\") {
		cls = append(cls, "escaped-payload")
	}
	return dedupStrings(cls), nontrivial, nil
}

func okWord(o jdx.Outcome) string {
	switch {
	case o.Panicked:
		return "panics (" + o.PanicMsg + ")"
	case o.Err != nil:
		return "fails (" + o.Err.Error() + ")"
	}
	return "applies"
}

// ---- domain A: diffs produced by Diff

func checkC02A(c TargetCase, r *rec.Rec) error {
	av, err := val.Parse(c.A)
	if err != nil {
		return fmt.Errorf("bad case: %v", err)
	}
	bv, err := val.Parse(c.B)
	if err != nil {
		return fmt.Errorf("bad case: %v", err)
	}
	viol := func(e error) error { return e }
	if ks := jdx.SetKeysOf(c.Opts); len(ks) >= 2 && permutedKeyTuples(ks, av, bv) {
		viol = func(e error) error { return rec.Known("D21", "%s", e.Error()) }
	}
	_, pmsg, panicked := jdx.DiffSafe(jdx.NodeText(c.A), jdx.NodeText(c.B), jdx.Options(c.Opts))
	if panicked {
		return rec.Violated("Diff panicked: %s", pmsg)
	}
	mk := func() jd.Diff { return jdx.NodeText(c.A).Diff(jdx.NodeText(c.B), jdx.Options(c.Opts)...) }
	targets := []string{c.A}
	if c.C != "" || c.How != "" {
		targets = append(targets, c.C)
	}
	cls, nontrivial, err := carrierCheck(mk, targets, c.B, c.Opts, r)
	if err != nil {
		return viol(err)
	}
	cls = append(cls, "opts="+c.Opts)
	r.Case(c.A+"|"+c.B+"|"+c.Opts+"|"+c.C, nontrivial, cls...)
	if nontrivial {
		r.Sample(c)
	}
	return nil
}

func genC02A(t *rapid.T) TargetCase {
	pc := genPairCase(t, c01OptSets, func(p *gen.Profile) {
		if gen.Chance(t, "payload", 35) {
			p.Payload = true
			p.NastyKeys = true
		}
		if gen.Chance(t, "floats", 20) {
			p.Floats = true
		}
	})
	c := TargetCase{A: pc.A, B: pc.B, Opts: pc.Opts}
	av, bv := val.MustParse(pc.A), val.MustParse(pc.B)
	d, _, panicked := jdx.DiffSafe(jdx.NodeText(pc.A), jdx.NodeText(pc.B), jdx.Options(pc.Opts))
	var hs []ref.Hunk
	if !panicked {
		hs, _ = jdx.ToHunks(d)
	}
	tv, how := drawTarget(t, av, bv, hs, profileFor(pc.Opts))
	c.C, c.How = val.JSON(tv), how
	return c
}

// ---- domain B: hunks built from public fields

type SynthCase struct {
	Hunks   []HunkSpec `json:"hunks"`
	Targets []string   `json:"targets"`
}

func payloadValue(t *rapid.T) val.V {
	r := gen.Int(t, "payloadKind", 0, 99)
	switch {
	case r < 30:
		return gen.Pick(t, "payloadStr", gen.PayloadStrings)
	case r < 40:
		return gen.Pick(t, "payloadNum", []val.V{1e21, 0.5, -1.0, 1e-7, 0.0, 3.0})
	case r < 55:
		return []val.V{gen.Pick(t, "payloadStrIn", gen.PayloadStrings), 1.0}
	case r < 65:
		return map[string]val.V{gen.Pick(t, "payloadKey", gen.PayloadStrings): gen.Pick(t, "payloadStrV", gen.PayloadStrings)}
	default:
		return gen.Value(t, gen.Profile{MaxDepth: 2, MaxArr: 3}, 1)
	}
}

func jsonTexts(vs []val.V) []string {
	out := make([]string, len(vs))
	for i, v := range vs {
		out[i] = val.JSON(v)
	}
	return out
}

func genSynthHunk(t *rapid.T, merge bool) HunkSpec {
	var prefix []string
	n := gen.Int(t, "prefixLen", 0, 2)
	for i := 0; i < n; i++ {
		if merge || gen.Chance(t, "prefixKey", 60) {
			prefix = append(prefix, val.JSON(gen.Pick(t, "pk", []string{"a", "b", "k", "a/b", "\"q\"", "é", ""})))
		} else {
			prefix = append(prefix, fmt.Sprint(gen.Int(t, "pi", 0, 2)))
		}
	}
	h := HunkSpec{Merge: merge}
	vals := func(label string, lo, hi int) []string {
		k := gen.Int(t, label, lo, hi)
		out := make([]string, 0, k)
		for i := 0; i < k; i++ {
			out = append(out, val.JSON(payloadValue(t)))
		}
		return out
	}
	path := func(tail ...string) string {
		return "[" + strings.Join(append(append([]string{}, prefix...), tail...), ",") + "]"
	}
	if merge {
		h.Path = path()
		if gen.Chance(t, "mergeDelete", 35) {
			h.Add = []string{""}
		} else {
			h.Add = vals("mergeAdd", 1, 1)
		}
		return h
	}
	ctx := func(label string, boundary bool) []string {
		switch gen.Int(t, label, 0, 4) {
		case 0:
			return nil
		case 1:
			return []string{""}
		case 2:
			return []string{val.JSON(payloadValue(t))}
		case 3: // two lines of context
			return []string{val.JSON(payloadValue(t)), val.JSON(payloadValue(t))}
		default: // boundary plus a value
			if boundary {
				return []string{"", val.JSON(payloadValue(t))}
			}
			return []string{val.JSON(payloadValue(t)), ""}
		}
	}
	switch gen.Int(t, "tail", 0, 5) {
	case 5: // keyed member, then a key, then a list hunk with context (mixed path kinds)
		id := val.JSON(map[string]val.V{"id": gen.Pick(t, "idv", []val.V{1.0, "x"})})
		if gen.Chance(t, "keyedNested", 30) {
			h.Path = path(id, `"xs"`, id, `"ys"`, fmt.Sprint(gen.Int(t, "idx", 0, 3)))
		} else {
			h.Path = path(id, `"xs"`, fmt.Sprint(gen.Int(t, "idx", 0, 3)))
		}
		h.Before = ctx("before", true)
		h.After = ctx("after", false)
		h.Remove = vals("listRemove", 0, 2)
		lo := 0
		if len(h.Remove) == 0 {
			lo = 1
		}
		h.Add = vals("listAdd", lo, 2)
	case 0: // leaf
		h.Path = path()
		h.Remove = vals("leafRemove", 0, 1)
		lo := 0
		if len(h.Remove) == 0 {
			lo = 1
		}
		h.Add = vals("leafAdd", lo, 1)
	case 1: // list hunk
		h.Path = path(fmt.Sprint(gen.Int(t, "idx", 0, 3)))
		h.Before = ctx("before", true)
		h.After = ctx("after", false)
		h.Remove = vals("listRemove", 0, 2)
		lo := 0
		if len(h.Remove) == 0 {
			lo = 1
		}
		h.Add = vals("listAdd", lo, 2)
	case 2: // set hunk
		h.Path = path("{}")
		h.Remove = vals("setRemove", 0, 3)
		lo := 0
		if len(h.Remove) == 0 {
			lo = 1
		}
		h.Add = vals("setAdd", lo, 3)
	case 3: // multiset hunk
		h.Path = path("[]")
		h.Remove = vals("msetRemove", 0, 3)
		lo := 0
		if len(h.Remove) == 0 {
			lo = 1
		}
		h.Add = vals("msetAdd", lo, 3)
	default: // keyed member, then a key
		id := val.JSON(map[string]val.V{"id": gen.Pick(t, "idv", []val.V{1.0, "x", "\n"})})
		h.Path = path(id, `"x"`)
		h.Remove = vals("keyedRemove", 0, 1)
		lo := 0
		if len(h.Remove) == 0 {
			lo = 1
		}
		h.Add = vals("keyedAdd", lo, 1)
	}
	return h
}

// fitTarget builds a small document on which the (strict) hunk applies.
func fitTarget(h ref.Hunk) (val.V, bool) {
	var build func(path []ref.PathElem) (val.V, bool)
	build = func(path []ref.PathElem) (val.V, bool) {
		if len(path) == 0 {
			if len(h.Remove) == 1 {
				return val.Clone(h.Remove[0]), true
			}
			return val.Void, true
		}
		e := path[0]
		switch e.Kind {
		case ref.Key:
			child, ok := build(path[1:])
			if !ok {
				return nil, false
			}
			o := map[string]val.V{"zz": 0.0}
			if !val.IsVoid(child) {
				o[e.Key] = child
			}
			return o, true
		case ref.Index:
			if e.Index > 4096 {
				return nil, false // no padding of millions of elements for a hand-written index
			}
			if len(path) > 1 {
				child, ok := build(path[1:])
				if !ok || val.IsVoid(child) {
					return nil, false
				}
				l := []val.V{}
				for i := 0; i < e.Index; i++ {
					l = append(l, "pad")
				}
				return append(l, child), true
			}
			l := []val.V{}
			nb := 0
			for _, b := range h.Before {
				if !val.IsVoid(b) {
					nb++
				}
			}
			if len(h.Before) > 0 && val.IsVoid(h.Before[0]) {
				if e.Index != nb {
					return nil, false
				}
			} else if e.Index < nb {
				return nil, false
			}
			for i := 0; i < e.Index-nb; i++ {
				l = append(l, "pad")
			}
			for _, b := range h.Before {
				if !val.IsVoid(b) {
					l = append(l, val.Clone(b))
				}
			}
			for _, rv := range h.Remove {
				l = append(l, val.Clone(rv))
			}
			endMarked := false
			for _, a := range h.After {
				if val.IsVoid(a) {
					endMarked = true
				} else {
					l = append(l, val.Clone(a))
				}
			}
			if !endMarked {
				l = append(l, "tail")
			}
			return l, true
		case ref.SetElem, ref.MultisetElem:
			l := []val.V{"other"}
			for _, rv := range h.Remove {
				l = append(l, val.Clone(rv))
			}
			return l, true
		case ref.SetKeys:
			child, ok := build(path[1:])
			if !ok {
				return nil, false
			}
			o, ok := child.(map[string]val.V)
			if !ok {
				return nil, false
			}
			for k, v := range e.Keys {
				o[k] = val.Clone(v)
			}
			return []val.V{map[string]val.V{"id": "other"}, o}, true
		}
		return nil, false
	}
	return build(h.Path)
}

func genC02B(t *rapid.T) SynthCase {
	n := gen.Int(t, "nHunks", 1, 3)
	nMerge := 0
	switch gen.Int(t, "mergeShare", 0, 3) {
	case 0:
		nMerge = gen.Int(t, "nMerge", 0, n)
	case 1:
		nMerge = n
	}
	var c SynthCase
	for i := 0; i < n; i++ {
		c.Hunks = append(c.Hunks, genSynthHunk(t, i >= n-nMerge))
	}
	hs, err := specsToHunks(c.Hunks)
	if err == nil && len(hs) > 0 {
		if ft, ok := fitTarget(hs[0]); ok {
			c.Targets = append(c.Targets, val.JSON(ft))
		}
	}
	c.Targets = append(c.Targets, val.JSON(gen.Doc(t, gen.Profile{VoidRoot: true})))
	return c
}

func checkC02B(c SynthCase, r *rec.Rec) error {
	hs, err := specsToHunks(c.Hunks)
	if err != nil {
		return fmt.Errorf("bad case: %v", err)
	}
	mk := func() jd.Diff { return jdx.FromHunks(hs) }
	cls, nontrivial, err := carrierCheck(mk, c.Targets, "", "", r)
	if err != nil {
		return err
	}
	merges := 0
	for _, h := range hs {
		if h.Merge {
			merges++
		}
	}
	if merges > 0 && merges < len(hs) {
		cls = append(cls, "strict-then-merge")
	}
	fp := fmt.Sprintf("%v|%v", c.Hunks, c.Targets)
	r.Case(fp, nontrivial, cls...)
	if nontrivial {
		r.Sample(c)
	}
	return nil
}

func init() { Register("C02", "diffs", checkC02A); Register("C02", "synthetic", checkC02B) }

func TestC02Diffs(t *testing.T)     { RunRandom(t, "C02", "diffs", genC02A, checkC02A) }
func TestC02Synthetic(t *testing.T) { RunRandom(t, "C02", "synthetic", genC02B, checkC02B) }

// ---- CLI leg: a diff printed by `jd a b` and applied with `jd -p` turns a into b

type CarrierCLICase struct {
	A    string `json:"a"`
	B    string `json:"b"`
	Opts string `json:"opts"`
	Bin  string `json:"bin"`
}

func checkC02CLI(c CarrierCLICase, r *rec.Rec) error {
	if !haveCLI() {
		return inconclusive{"jd binaries not built"}
	}
	av, err := val.Parse(c.A)
	if err != nil {
		return fmt.Errorf("bad case: %v", err)
	}
	bv, err := val.Parse(c.B)
	if err != nil {
		return fmt.Errorf("bad case: %v", err)
	}
	viol := rec.Violated
	if ks := jdx.SetKeysOf(c.Opts); len(ks) >= 2 && permutedKeyTuples(ks, av, bv) {
		viol = func(f string, a ...interface{}) error { return rec.Known("D21", f, a...) }
	}
	if containsMagic(av, bv) {
		r.Class("skipped:magic-number")
		return nil
	}
	dir, cleanup := caseDir()
	defer cleanup()
	writeFile(dir, "a", c.A)
	writeFile(dir, "b", c.B)
	flags := optFlags(c.Opts)
	res := runCLI(c.Bin, append(append([]string{}, flags...), "a", "b"), nil, dir)
	if err := cliTrouble(res); err != nil {
		return err
	}
	desc := fmt.Sprintf("%s %s a b (a=%s b=%s)", c.Bin, strings.Join(flags, " "), c.A, c.B)
	if res.Status != 0 && res.Status != 1 {
		return viol("%s exits %d: %s", desc, res.Status, res.Stderr)
	}
	// what was printed is what the library renders
	want := jdx.NodeText(c.A).Diff(jdx.NodeText(c.B), append(jdx.Options(c.Opts), jd.Precision(0))...).Render()
	if res.Stdout != want {
		return viol("%s prints\n%q\nthe library renders\n%q", desc, res.Stdout, want)
	}
	writeFile(dir, "d", res.Stdout)
	resP := runCLI(c.Bin, append(append([]string{"-p"}, flags...), "d", "a"), nil, dir)
	if err := cliTrouble(resP); err != nil {
		return err
	}
	if resP.Status != 0 {
		return viol("%s: the printed diff does not apply with -p (status %d): %s\ndiff:\n%s", desc, resP.Status, resP.Stderr, res.Stdout)
	}
	got, err := jd.ReadJsonString(resP.Stdout)
	if err != nil {
		return viol("%s: -p prints unreadable JSON %q", desc, resP.Stdout)
	}
	if !got.Equals(jdx.NodeText(c.B), jdx.Options(c.Opts)...) {
		return viol("%s: the printed diff applied with -p gives %s, not b\ndiff:\n%s", desc, resP.Stdout, res.Stdout)
	}
	nontrivial := res.Status == 1 && (strings.Contains(res.Stdout, "\\") || strings.Contains(res.Stdout, "%") || strings.Count(res.Stdout, "@ ") >= 2)
	r.Case(fmt.Sprintf("%v", c), nontrivial, "bin="+c.Bin, "opts="+c.Opts)
	if nontrivial {
		r.Sample(c)
	}
	return nil
}

func genC02CLI(t *rapid.T) CarrierCLICase {
	pc := genPairCase(t, []string{"list", "list", "set", "mset", "setkeys:id", "set+mset"}, func(p *gen.Profile) {
		p.Payload = true
		p.NastyKeys = gen.Chance(t, "nasty", 40)
		p.Big = 6
	})
	return CarrierCLICase{A: pc.A, B: pc.B, Opts: pc.Opts, Bin: gen.Pick(t, "bin", []string{"jd-v2", "jd-top"})}
}

func init() { Register("C02", "cli", checkC02CLI) }

func TestC02CLI(t *testing.T) { RunRandom(t, "C02", "cli", genC02CLI, checkC02CLI) }
