// Package props holds one executable check per property. Each check is a set
// of "legs"; a leg has a plain JSON-serialisable case type, a generator (or
// enumerator) and an oracle function check(case) error. Replay files hold a
// case and are re-executed through the oracle function alone.
package props

import (
	"encoding/binary"
	"encoding/json"
	"fmt"
	"os"
	"path/filepath"
	"sort"
	"strconv"
	"strings"
	"testing"

	"pgregory.net/rapid"

	"verifjd/rec"
	"verifjd/val"
)

func tier() string {
	if os.Getenv("VERIF_TIER") == "thorough" {
		return "thorough"
	}
	return "quick"
}

func thorough() bool { return tier() == "thorough" }

// shard returns (index, count) from VERIF_SHARD="i/n".
func shard() (int, int) {
	s := os.Getenv("VERIF_SHARD")
	parts := strings.Split(s, "/")
	if len(parts) != 2 {
		return 0, 1
	}
	i, err1 := strconv.Atoi(parts[0])
	n, err2 := strconv.Atoi(parts[1])
	if err1 != nil || err2 != nil || n <= 0 {
		return 0, 1
	}
	return i, n
}

type legRunner func(raw []byte, r *rec.Rec) error

var legs = map[string]legRunner{}

// Register makes a leg's oracle reachable from replay files.
func Register[C any](prop, leg string, check func(C, *rec.Rec) error) {
	legs[prop+"/"+leg] = func(raw []byte, r *rec.Rec) error {
		var c C
		dec := json.NewDecoder(strings.NewReader(string(raw)))
		if err := dec.Decode(&c); err != nil {
			return fmt.Errorf("cannot decode case: %v", err)
		}
		return check(c, r)
	}
}

// RunRandom drives a leg with rapid.
func RunRandom[C any](t *testing.T, prop, leg string, gen func(*rapid.T) C, check func(C, *rec.Rec) error) {
	r := rec.New(prop, leg)
	defer r.Flush()
	trace := os.Getenv("VERIF_TRACE_CASES") != ""
	rapid.Check(t, func(rt *rapid.T) {
		c := gen(rt)
		if trace {
			// second run of a shard whose process died: remember the case
			// that is about to be executed
			traceCase(prop, leg, c)
		}
		err := guarded(check, c, r)
		if err != nil && !r.Suppress(err) {
			if _, ok := err.(*rec.Violation); ok {
				r.WriteFail(c, err)
			} else {
				fmt.Printf("HARNESS-ERROR %s/%s: %v\n", prop, leg, err)
			}
			rt.Fatalf("%v", err)
		}
	})
}

// Enum drives a leg over an enumerated space. Each case is offered through
// yield; the enumeration stops at the first failure.
type Enum[C any] struct {
	t     *testing.T
	r     *rec.Rec
	check func(C, *rec.Rec) error
	n     int64
	si    int
	sn    int
}

func NewEnum[C any](t *testing.T, prop, leg string, check func(C, *rec.Rec) error) *Enum[C] {
	e := &Enum[C]{t: t, r: rec.New(prop, leg), check: check}
	e.si, e.sn = shard()
	e.r.Exhaustive = true
	return e
}

// Mine reports whether the n-th unit of work belongs to this shard.
func (e *Enum[C]) Mine() bool {
	mine := int(e.n%int64(e.sn)) == e.si
	e.n++
	return mine
}

func (e *Enum[C]) Do(c C) {
	if os.Getenv("VERIF_TRACE_CASES") != "" {
		traceCase(e.r.Prop, e.r.Leg, c)
	}
	err := guarded(e.check, c, e.r)
	if err != nil && !e.r.Suppress(err) {
		if _, ok := err.(*rec.Violation); ok {
			e.r.WriteFail(c, err)
		} else {
			fmt.Printf("HARNESS-ERROR %s/%s: %v\n", e.r.Prop, e.r.Leg, err)
		}
		e.r.Flush()
		e.t.Fatalf("%v", err)
	}
}

func (e *Enum[C]) Done() { e.r.Flush() }

// replayOne executes a replay file through its oracle.
func replayOne(path string, noSuppress bool) (*rec.ReplayFile, error, error) {
	data, err := os.ReadFile(path)
	if err != nil {
		return nil, nil, err
	}
	var rf rec.ReplayFile
	if err := json.Unmarshal(data, &rf); err != nil {
		return nil, nil, err
	}
	run, ok := legs[rf.Prop+"/"+rf.Leg]
	if !ok {
		return &rf, nil, fmt.Errorf("unknown leg %s/%s", rf.Prop, rf.Leg)
	}
	r := rec.New(rf.Prop, rf.Leg)
	r.NoSuppress = noSuppress
	return &rf, run(rf.Case, r), nil
}

func resolve(p string) string {
	if filepath.IsAbs(p) {
		return p
	}
	return filepath.Join(rec.VerifRoot(), p)
}

func fpUnion(listFile string) int {
	data, err := os.ReadFile(listFile)
	if err != nil {
		panic(err)
	}
	var all []uint64
	for _, p := range strings.Split(string(data), "\n") {
		p = strings.TrimSpace(p)
		if p == "" {
			continue
		}
		b, err := os.ReadFile(p)
		if err != nil {
			panic(err)
		}
		for i := 0; i+8 <= len(b); i += 8 {
			all = append(all, binary.LittleEndian.Uint64(b[i:i+8]))
		}
	}
	sort.Slice(all, func(i, j int) bool { return all[i] < all[j] })
	n := 0
	for i, x := range all {
		if i == 0 || x != all[i-1] {
			n++
		}
	}
	return n
}

// guarded runs check, turning a panic of the code under test into a
// violation so that the failing case is still written out.
func guarded[C any](check func(C, *rec.Rec) error, c C, r *rec.Rec) (err error) {
	defer func() {
		if p := recover(); p != nil {
			err = rec.Violated("panic: %v", p)
		}
	}()
	return check(c, r)
}

func valParse(s string) (interface{}, error) { return val.Parse(s) }

// traceCase writes the case that is about to run as a replay file, so that
// a case which kills the whole process (stack overflow, fatal runtime
// error) can be named and re-executed.
func traceCase(prop, leg string, c interface{}) {
	raw, _ := json.Marshal(c)
	rf := rec.ReplayFile{Prop: prop, Leg: leg, Message: "the process died while this case was running (fatal runtime error, e.g. stack overflow)", Case: raw}
	out, _ := json.MarshalIndent(rf, "", " ")
	d := os.Getenv("VERIF_OUT_DIR")
	if d == "" {
		d = os.TempDir()
	}
	os.WriteFile(filepath.Join(d, "lastcase.json"), out, 0o644)
}
