package props

import (
	"testing"

	"verifjd/rec"
	"verifjd/val"
)

// Native coverage-guided fuzzing of the C12 oracle (thorough tier): any two
// JSON texts, the first taken as the target and the second as the merge patch
// document. Texts that are not JSON documents are skipped inside the target.
func FuzzC12Merge(f *testing.F) {
	// RFC 7386, appendix A
	for _, s := range [][2]string{
		{`{"a":"b"}`, `{"a":"c"}`}, {`{"a":"b"}`, `{"b":"c"}`}, {`{"a":"b"}`, `{"a":null}`}, {`{"a":"b","b":"c"}`, `{"a":null}`},
		{`{"a":["b"]}`, `{"a":"c"}`}, {`{"a":"c"}`, `{"a":["b"]}`}, {`{"a":{"b":"c"}}`, `{"a":{"b":"d","c":null}}`}, {`{"a":[{"b":"c"}]}`, `{"a":[1]}`},
		{`["a","b"]`, `["c","d"]`}, {`{"a":"b"}`, `["c"]`}, {`{"a":"foo"}`, `null`}, {`{"a":"foo"}`, `"bar"`}, {`{"e":null}`, `{"a":1}`},
		{`[1,2]`, `{"a":"b","c":null}`}, {`{}`, `{"a":{"bb":{"ccc":null}}}`}, {`{"a":{"b":1}}`, `{"a":{}}`}, {`5`, `{"a":{"b":{}}}`}, {`{"":{"":1}}`, `{"":{"":null,"x":{}}}`},
	} {
		f.Add(s[0], s[1])
	}
	r := rec.New("C12", "fuzz")
	f.Fuzz(func(t *testing.T, target, patch string) {
		if tv, err := val.Parse(target); err != nil || val.IsVoid(tv) {
			return
		}
		if pv, err := val.Parse(patch); err != nil || val.IsVoid(pv) {
			return
		}
		c := MergeCase{Target: target, Patch: patch}
		if err := guarded(checkC12, c, r); err != nil && !r.Suppress(err) {
			if _, ok := err.(*rec.Violation); ok {
				r.WriteFail(c, err)
			}
			t.Fatalf("%v", err)
		}
	})
}
