package props

import (
	"encoding/binary"
	"fmt"
	"hash/fnv"
	"math"
	"sync"
	"unicode/utf8"

	"pgregory.net/rapid"

	"verifjd/gen"
	"verifjd/val"
)

// Values chosen for what an 8-byte content hash might confuse. None of this
// looks at jd's state: the pools are computed from the public fact that jd
// compares array members under SET / MULTISET (and aligns lists) by 64-bit
// FNV-1a codes of their content.

func fnvLE(b []byte) [8]byte {
	h := fnv.New64a()
	h.Write(b)
	var a [8]byte
	binary.LittleEndian.PutUint64(a[:], h.Sum64())
	return a
}

func numberCode(f float64) [8]byte {
	var b [8]byte
	binary.LittleEndian.PutUint64(b[:], math.Float64bits(f))
	return fnvLE(b[:])
}

type prefixTwin struct{ X, Y float64 }
type stringTwin struct{ X, Y string }
type codeQuad struct{ A, B, C, D float64 }

var (
	twinOnce      sync.Once
	prefixTwins   []prefixTwin // two-decimal numbers whose codes share the first four bytes
	stringTwins   []stringTwin // identifier-like strings whose codes share the first four bytes
	stringTwinsHi []stringTwin // ... the last four bytes
	textCodeNums  []float64    // whole numbers whose code is valid UTF-8 text
	xorQuads      []codeQuad   // code(A)^code(B) == code(C)^code(D), all four different
	sumQuads      []codeQuad   // code(A)+code(B) == code(C)+code(D)
)

var stringPrefixBytes = []byte{0x8B, 0x1E, 0x52, 0x0C, 0x37, 0xA9, 0xD4, 0x61} // jd tags strings with these bytes before hashing

func stringCode(s string) [8]byte { return fnvLE(append(append([]byte{}, stringPrefixBytes...), s...)) }

func buildTwins() {
	twinOnce.Do(func() {
		seen := map[[4]byte]float64{}
		for k := 0; k < 400000 && len(prefixTwins) < 24; k++ {
			f := float64(k) / 100
			c := numberCode(f)
			var p [4]byte
			copy(p[:], c[:4])
			if g, ok := seen[p]; ok {
				prefixTwins = append(prefixTwins, prefixTwin{g, f})
			} else {
				seen[p] = f
			}
		}
		seenLo, seenHi := map[[4]byte]string{}, map[[4]byte]string{}
		for k := 0; k < 1000000 && (len(stringTwins) < 24 || len(stringTwinsHi) < 24); k++ {
			str := fmt.Sprintf("id-%06d", k)
			c := stringCode(str)
			var lo, hi [4]byte
			copy(lo[:], c[:4])
			copy(hi[:], c[4:])
			if g, ok := seenLo[lo]; ok && len(stringTwins) < 24 {
				stringTwins = append(stringTwins, stringTwin{g, str})
			} else {
				seenLo[lo] = str
			}
			if g, ok := seenHi[hi]; ok && len(stringTwinsHi) < 24 {
				stringTwinsHi = append(stringTwinsHi, stringTwin{g, str})
			} else {
				seenHi[hi] = str
			}
		}
		// pairs of small whole numbers whose codes have the same XOR / the same sum
		type pair struct{ a, b int }
		code := make([]uint64, 1500)
		for i := range code {
			c := numberCode(float64(i - 100))
			code[i] = binary.LittleEndian.Uint64(c[:])
		}
		xs, ss := map[uint64]pair{}, map[uint64]pair{}
		for i := 0; i < len(code) && (len(xorQuads) < 16 || len(sumQuads) < 16); i++ {
			for j := i + 1; j < len(code); j++ {
				x, sm := code[i]^code[j], code[i]+code[j]
				if p, ok := xs[x]; ok && p.a != i && p.b != j && p.b != i && len(xorQuads) < 16 {
					xorQuads = append(xorQuads, codeQuad{float64(p.a - 100), float64(p.b - 100), float64(i - 100), float64(j - 100)})
				} else if !ok {
					xs[x] = pair{i, j}
				}
				if p, ok := ss[sm]; ok && p.a != i && p.b != j && p.b != i && len(sumQuads) < 16 {
					sumQuads = append(sumQuads, codeQuad{float64(p.a - 100), float64(p.b - 100), float64(i - 100), float64(j - 100)})
				} else if !ok {
					ss[sm] = pair{i, j}
				}
			}
		}
		for k := 0; k < 60000 && len(textCodeNums) < 40; k++ {
			c := numberCode(float64(k))
			if utf8.Valid(c[:]) {
				textCodeNums = append(textCodeNums, float64(k))
			}
		}
	})
}

// hashShapePair draws two documents that differ (or agree) exactly where a
// careless combination of content codes would not notice: members whose codes
// share a prefix, in exchanged order; a key that spells key + code(value) +
// key of a two-member object; neighbouring strings split at another place.
func hashShapePair(t *rapid.T) (a, b val.V) {
	buildTwins()
	wrap := func(x, y val.V) (val.V, val.V) {
		switch gen.Int(t, "hashWrap", 0, 2) {
		case 0:
			return []val.V{x}, []val.V{y}
		case 1:
			return map[string]val.V{"k": []val.V{x, 1.0}}, map[string]val.V{"k": []val.V{1.0, y}}
		}
		return x, y
	}
	switch gen.Int(t, "hashShape", 0, 10) {
	case 9, 10: // a member moved from behind a nested object into its end
		inner := gen.Pick(t, "mmInner", []val.V{map[string]val.V{"b": 1.0}, map[string]val.V{}, map[string]val.V{"b": map[string]val.V{"x": 1.0}}})
		moved := gen.Pick(t, "mmMoved", []val.V{2.0, "s", []val.V{1.0}, nil})
		in1 := val.Clone(inner).(map[string]val.V)
		in2 := val.Clone(inner).(map[string]val.V)
		in2["c"] = moved
		x := map[string]val.V{"a": in1, "c": moved}
		y := map[string]val.V{"a": in2}
		if gen.Chance(t, "mmLead", 40) {
			x["0"], y["0"] = 0.0, 0.0
		}
		if gen.Chance(t, "btInList", 50) {
			return wrap([]val.V{0.0, x, 5.0}, []val.V{0.0, y, 5.0})
		}
		return wrap(x, y)
	case 7, 8: // the same scalars in the same order, a nested list closing at another place
		x, y := gen.BracketTwins(t)
		if gen.Chance(t, "btInList", 50) {
			return wrap([]val.V{0.0, x, 5.0}, []val.V{0.0, y, 5.0})
		}
		return wrap(x, y)
	case 4: // strings whose codes share four bytes, facing each other or exchanged
		pool := stringTwins
		if gen.Chance(t, "hiBytes", 40) {
			pool = stringTwinsHi
		}
		if len(pool) > 0 {
			tw := gen.Pick(t, "stringTwin", pool)
			if gen.Chance(t, "exchanged", 50) {
				return wrap([]val.V{tw.X, tw.Y}, []val.V{tw.Y, tw.X})
			}
			return wrap([]val.V{"h", tw.X, "t"}, []val.V{"h", tw.Y, "t"})
		}
	case 5: // two pairs of numbers whose codes combine (xor, sum) to the same word
		pool := xorQuads
		if gen.Chance(t, "sum", 40) {
			pool = sumQuads
		}
		if len(pool) > 0 {
			q := gen.Pick(t, "quad", pool)
			return wrap([]val.V{q.A, q.B}, []val.V{q.C, q.D})
		}
	case 6: // an 8-byte string and the number with the same bytes
		s8 := gen.Pick(t, "s8", []string{"AAAAAAAA", "password", "12345678", "abcdefgh", "        "})
		f := math.Float64frombits(binary.LittleEndian.Uint64([]byte(s8)))
		if !math.IsNaN(f) && !math.IsInf(f, 0) {
			return wrap([]val.V{"h", s8, "t"}, []val.V{"h", f, "t"})
		}
	case 0: // prefix twins, exchanged
		if len(prefixTwins) > 0 {
			tw := gen.Pick(t, "prefixTwin", prefixTwins)
			x, y := []val.V{tw.X, tw.Y}, []val.V{tw.Y, tw.X}
			if gen.Chance(t, "extra", 40) {
				x, y = append(x, "z"), append([]val.V{"z"}, y...)
			}
			return wrap(x, y)
		}
	case 1: // prefix twins, one replaced by the other
		if len(prefixTwins) > 0 {
			tw := gen.Pick(t, "prefixTwin", prefixTwins)
			return wrap([]val.V{tw.X, tw.Y}, []val.V{tw.Y, tw.Y})
		}
	case 2: // {"a":n,"b":w} against {"a"+code(n)+"b":w}
		if len(textCodeNums) > 0 {
			n := gen.Pick(t, "codeNum", textCodeNums)
			c := numberCode(n)
			k1 := gen.Pick(t, "k1", []string{"a", "", "k"})
			k2 := gen.Pick(t, "k2", []string{"b", "z", "kk"})
			w := gen.Pick(t, "w", []val.V{2.0, "w", nil, true})
			if k1 < k2 { // the members are combined in key order
				return wrap(map[string]val.V{k1: n, k2: w}, map[string]val.V{k1 + string(c[:]) + k2: w})
			}
		}
	}
	// neighbouring strings re-split
	s1 := gen.Pick(t, "s1", []string{"ab", "abc", "a b", "xy"})
	s2 := gen.Pick(t, "s2", []string{"c", "cd", "", "y"})
	x := []val.V{s1, s2}
	y := []val.V{s1[:len(s1)-1], s1[len(s1)-1:] + s2}
	if gen.Chance(t, "asObject", 40) {
		return wrap(map[string]val.V{s1: s2}, map[string]val.V{s1[:len(s1)-1]: s1[len(s1)-1:] + s2})
	}
	return wrap(x, y)
}

var _ = rapid.Bool

// twinArrays: two arrays equal except at one position, where two different
// scalars with related content codes face each other.
func twinArrays(t *rapid.T) ([]val.V, []val.V) {
	buildTwins()
	var x, y val.V
	switch gen.Int(t, "twinKind", 0, 7) {
	case 7: // equal elements that spell a zero inside them with another sign (see below: no twin, an equal pair)
		z := math.Copysign(0, -1)
		x, y = gen.Pick(t, "zeroHolder", []val.V{[]val.V{0.0, 1.0}, map[string]val.V{"z": 0.0}, []val.V{[]val.V{0.0}}}), nil
		switch h := x.(type) {
		case []val.V:
			if inner, ok := h[0].([]val.V); ok {
				y = []val.V{[]val.V{z}, inner[1:]}
				y = []val.V{[]val.V{z}}
			} else {
				y = []val.V{z, 1.0}
			}
		case map[string]val.V:
			y = map[string]val.V{"z": z}
		}
		// equal elements at shifted positions: only the alignment can keep them
		return []val.V{x, "t"}, []val.V{9.0, y, "t"}
	case 4, 5: // elements that differ only in their bracketing
		x, y = gen.BracketTwins(t)
	case 6: // objects whose values are exchanged between the keys
		v1, v2 := gen.Pick(t, "sw1", []val.V{1.0, "x", []val.V{1.0}}), gen.Pick(t, "sw2", []val.V{2.0, "y", []val.V{2.0}, map[string]val.V{"k": 1.0}})
		x, y = map[string]val.V{"a": v1, "b": v2}, map[string]val.V{"a": v2, "b": v1}
	case 0:
		tw := gen.Pick(t, "stringTwin", stringTwins)
		x, y = tw.X, tw.Y
	case 1:
		tw := gen.Pick(t, "stringTwinHi", stringTwinsHi)
		x, y = tw.X, tw.Y
	case 2:
		tw := gen.Pick(t, "prefixTwin", prefixTwins)
		x, y = tw.X, tw.Y
	default:
		s8 := gen.Pick(t, "s8", []string{"AAAAAAAA", "password", "12345678", "abcdefgh"})
		x, y = s8, math.Float64frombits(binary.LittleEndian.Uint64([]byte(s8)))
	}
	n := gen.Int(t, "twinLen", 1, 6)
	at := gen.Int(t, "twinAt", 0, n-1)
	a, b := make([]val.V, n), make([]val.V, n)
	for i := range a {
		a[i], b[i] = float64(i), float64(i)
	}
	a[at], b[at] = x, y
	if gen.Chance(t, "twinInObject", 30) {
		a[at], b[at] = map[string]val.V{"v": x, "w": 1.0}, map[string]val.V{"v": y, "w": 1.0}
	}
	return a, b
}
