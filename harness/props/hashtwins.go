package props

import (
	"encoding/binary"
	"hash/fnv"
	"math"
	"sync"
	"unicode/utf8"

	"pgregory.net/rapid"

	"verifjd/gen"
	"verifjd/val"
)

// Values chosen for what an 8-byte content hash might confuse. None of this
// looks at jd's state: the pools are computed from the public fact that jd
// compares array members under SET / MULTISET (and aligns lists) by 64-bit
// FNV-1a codes of their content.

func fnvLE(b []byte) [8]byte {
	h := fnv.New64a()
	h.Write(b)
	var a [8]byte
	binary.LittleEndian.PutUint64(a[:], h.Sum64())
	return a
}

func numberCode(f float64) [8]byte {
	var b [8]byte
	binary.LittleEndian.PutUint64(b[:], math.Float64bits(f))
	return fnvLE(b[:])
}

type prefixTwin struct{ X, Y float64 }

var (
	twinOnce     sync.Once
	prefixTwins  []prefixTwin // two-decimal numbers whose codes share the first four bytes
	textCodeNums []float64    // whole numbers whose code is valid UTF-8 text
)

func buildTwins() {
	twinOnce.Do(func() {
		seen := map[[4]byte]float64{}
		for k := 0; k < 400000 && len(prefixTwins) < 24; k++ {
			f := float64(k) / 100
			c := numberCode(f)
			var p [4]byte
			copy(p[:], c[:4])
			if g, ok := seen[p]; ok {
				prefixTwins = append(prefixTwins, prefixTwin{g, f})
			} else {
				seen[p] = f
			}
		}
		for k := 0; k < 60000 && len(textCodeNums) < 40; k++ {
			c := numberCode(float64(k))
			if utf8.Valid(c[:]) {
				textCodeNums = append(textCodeNums, float64(k))
			}
		}
	})
}

// hashShapePair draws two documents that differ (or agree) exactly where a
// careless combination of content codes would not notice: members whose codes
// share a prefix, in exchanged order; a key that spells key + code(value) +
// key of a two-member object; neighbouring strings split at another place.
func hashShapePair(t *rapid.T) (a, b val.V) {
	buildTwins()
	wrap := func(x, y val.V) (val.V, val.V) {
		switch gen.Int(t, "hashWrap", 0, 2) {
		case 0:
			return []val.V{x}, []val.V{y}
		case 1:
			return map[string]val.V{"k": []val.V{x, 1.0}}, map[string]val.V{"k": []val.V{1.0, y}}
		}
		return x, y
	}
	switch gen.Int(t, "hashShape", 0, 3) {
	case 0: // prefix twins, exchanged
		if len(prefixTwins) > 0 {
			tw := gen.Pick(t, "prefixTwin", prefixTwins)
			x, y := []val.V{tw.X, tw.Y}, []val.V{tw.Y, tw.X}
			if gen.Chance(t, "extra", 40) {
				x, y = append(x, "z"), append([]val.V{"z"}, y...)
			}
			return wrap(x, y)
		}
	case 1: // prefix twins, one replaced by the other
		if len(prefixTwins) > 0 {
			tw := gen.Pick(t, "prefixTwin", prefixTwins)
			return wrap([]val.V{tw.X, tw.Y}, []val.V{tw.Y, tw.Y})
		}
	case 2: // {"a":n,"b":w} against {"a"+code(n)+"b":w}
		if len(textCodeNums) > 0 {
			n := gen.Pick(t, "codeNum", textCodeNums)
			c := numberCode(n)
			k1 := gen.Pick(t, "k1", []string{"a", "", "k"})
			k2 := gen.Pick(t, "k2", []string{"b", "z", "kk"})
			w := gen.Pick(t, "w", []val.V{2.0, "w", nil, true})
			if k1 < k2 { // the members are combined in key order
				return wrap(map[string]val.V{k1: n, k2: w}, map[string]val.V{k1 + string(c[:]) + k2: w})
			}
		}
	}
	// neighbouring strings re-split
	s1 := gen.Pick(t, "s1", []string{"ab", "abc", "a b", "xy"})
	s2 := gen.Pick(t, "s2", []string{"c", "cd", "", "y"})
	x := []val.V{s1, s2}
	y := []val.V{s1[:len(s1)-1], s1[len(s1)-1:] + s2}
	if gen.Chance(t, "asObject", 40) {
		return wrap(map[string]val.V{s1: s2}, map[string]val.V{s1[:len(s1)-1]: s1[len(s1)-1:] + s2})
	}
	return wrap(x, y)
}

var _ = rapid.Bool
