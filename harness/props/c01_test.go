package props

import (
	"fmt"
	"sort"
	"strings"
	"testing"

	"pgregory.net/rapid"

	"verifjd/gen"
	"verifjd/jdx"
	"verifjd/rec"
	"verifjd/ref"
	"verifjd/val"
)

// C01 — diff-then-patch reproduces the target (v2 library), in memory.

type PairCase struct {
	A    string `json:"a"` // JSON text, "" = void document
	B    string `json:"b"`
	Opts string `json:"opts"`
}

var c01OptSets = []string{"list", "set", "mset", "setkeys:id", "setkeys:id,k", "merge", "set+merge", "mset+merge", "set+mset", "mset+set", "setkeys:id+mset", "prec:0", "merge+prec:0", "setkeys:id,k,a"}

// profileFor returns a generator profile that respects the preconditions
// of the option set (null-free for merge, complete unique keys for setkeys).
func profileFor(opts string) gen.Profile {
	p := gen.Profile{VoidRoot: true, Big: 2}
	if jdx.IsMerge(opts) {
		p.NullFree = true
	}
	if ks := jdx.SetKeysOf(opts); ks != nil {
		p.Keyed = ks
		p.ArrayBias = 40
	}
	return p
}

func genPairCase(t *rapid.T, optSets []string, tweak func(*gen.Profile)) PairCase {
	opts := gen.Pick(t, "opts", optSets)
	p := profileFor(opts)
	if tweak != nil {
		tweak(&p)
	}
	if ks := jdx.SetKeysOf(opts); ks != nil && gen.Chance(t, "keyedPair", 65) {
		a, b := gen.KeyedPair(t, ks, p)
		if gen.Chance(t, "respelledKeyTwin", 6) {
			// one member twice, its first key value (an array) written in two
			// member orders; b changes, keeps or drops it
			m1 := map[string]val.V{"v": 1.0}
			for i, k := range ks {
				m1[k] = float64(7 + i)
			}
			m1[ks[0]] = []val.V{1.0, "tw"}
			m2 := val.Clone(m1).(map[string]val.V)
			m2[ks[0]] = []val.V{"tw", 1.0}
			mb := val.Clone(m1).(map[string]val.V)
			if gen.Chance(t, "twinSpelledOtherWay", 50) {
				mb[ks[0]] = []val.V{"tw", 1.0}
			}
			mb["v"] = gen.Pick(t, "twinNewV", []val.V{2.0, 1.0, "s"})
			if al, ok := a.([]val.V); ok {
				if bl, ok := b.([]val.V); ok {
					i := gen.Int(t, "twinAt1", 0, len(al))
					al = append(al[:i:i], append([]val.V{m1}, al[i:]...)...)
					j := gen.Int(t, "twinAt2", 0, len(al))
					al = append(al[:j:j], append([]val.V{m2}, al[j:]...)...)
					if gen.Chance(t, "twinStays", 75) {
						bl = append(bl, mb)
					}
					a, b = al, bl
				}
			}
		}
		if gen.Chance(t, "exactDuplicates", 10) {
			// the same member object twice: still one member of the set
			a = gen.DupSome(t, a, 40)
			if gen.Chance(t, "alsoInB", 30) {
				b = gen.DupSome(t, b, 40)
			}
			if gen.Chance(t, "respelled", 50) {
				// the copies spell the arrays inside their key values (with
				// RespellAll: every nested array) in different member orders
				if p.RespellAll {
					a = gen.Permute(t, a, 60)
				} else {
					a = gen.RespellKeyValues(t, a, ks)
				}
			}
		}
		if gen.Chance(t, "deep", 15) {
			a, b = gen.DeepPair(t, a, b, p)
		}
		return PairCase{A: val.JSON(a), B: val.JSON(b), Opts: opts}
	}
	if gen.Chance(t, "floats", 20) {
		p.Floats = true
	}
	if jdx.Reading(opts) == val.List && !jdx.IsMerge(opts) && gen.Chance(t, "listRich", 50) {
		p.ArrayBias = 70
		p.MaxArr = 8
	}
	a, b, _ := gen.Pair(t, p)
	if jdx.SetKeysOf(opts) == nil && gen.Chance(t, "spellingTwins", 3) {
		a, b = gen.SpellingTwins(t)
	}
	if gen.Chance(t, "pathTwins", 2) {
		a, b = gen.PathTwins(t, a, b, p)
	}
	if jdx.SetKeysOf(opts) == nil && gen.Chance(t, "hashShapes", 2) {
		a, b = hashShapePair(t)
		if jdx.IsMerge(opts) {
			a, b = stripNulls(a), stripNulls(b)
		}
	}
	if jdx.SetKeysOf(opts) == nil && gen.Chance(t, "repeatedBlocks", 2) {
		a, b = gen.RepeatedBlocks(t, p)
	}
	if gen.Chance(t, "deep", 15) {
		a, b = gen.DeepPair(t, a, b, p)
	}
	return PairCase{A: val.JSON(a), B: val.JSON(b), Opts: opts}
}

// diffClasses describes the shape of a diff for the coverage histogram.
func diffClasses(a val.V, hs []ref.Hunk) []string {
	var cls []string
	if len(hs) >= 2 {
		cls = append(cls, "multi-hunk")
	}
	listHunks := 0
	for _, h := range hs {
		if len(h.Path) == 0 {
			continue
		}
		last := h.Path[len(h.Path)-1]
		if last.Kind == ref.Index {
			listHunks++
		}
		depthIdx := 0
		for _, e := range h.Path {
			switch e.Kind {
			case ref.Index:
				depthIdx++
			case ref.SetKeys:
				cls = append(cls, "keyed-member-hunk")
			case ref.SetElem:
				cls = append(cls, "set-hunk")
			case ref.MultisetElem:
				cls = append(cls, "multiset-hunk")
			}
		}
		if depthIdx >= 2 {
			cls = append(cls, "array-in-array")
		}
		if h.Merge {
			cls = append(cls, "merge-hunk")
		}
	}
	if listHunks >= 2 {
		cls = append(cls, "multi-list-hunk")
	}
	return dedupStrings(cls)
}

func dedupStrings(xs []string) []string {
	seen := map[string]bool{}
	out := xs[:0]
	for _, x := range xs {
		if !seen[x] {
			seen[x] = true
			out = append(out, x)
		}
	}
	return out
}

func hasDupElems(v val.V) bool {
	switch x := v.(type) {
	case []val.V:
		seen := map[string]bool{}
		for _, e := range x {
			c := val.Canon(e, val.List)
			if seen[c] {
				return true
			}
			seen[c] = true
			if hasDupElems(e) {
				return true
			}
		}
	case map[string]val.V:
		for _, e := range x {
			if hasDupElems(e) {
				return true
			}
		}
	}
	return false
}

func checkC01(c PairCase, r *rec.Rec) error {
	av, err := val.Parse(c.A)
	if err != nil {
		return fmt.Errorf("bad case: %v", err)
	}
	bv, err := val.Parse(c.B)
	if err != nil {
		return fmt.Errorf("bad case: %v", err)
	}
	opts := jdx.Options(c.Opts)
	a := jdx.NodeText(c.A)
	b := jdx.NodeText(c.B)
	d, pmsg, panicked := jdx.DiffSafe(a, b, opts)
	if panicked {
		return rec.Violated("Diff panicked: %s", pmsg)
	}
	// The most direct use: the very value that was diffed is patched with the
	// diff it returned (the diff may share storage with it).
	{
		a0 := jdx.NodeText(c.A)
		d0, msg0, p0 := jdx.DiffSafe(a0, jdx.NodeText(c.B), opts)
		if p0 {
			return rec.Violated("Diff panicked: %s", msg0)
		}
		shown := d0.Render()
		same := jdx.Patch(a0, d0)
		sviol := rec.Violated
		if ks := jdx.SetKeysOf(c.Opts); ks != nil && ((len(ks) >= 2 && permutedKeyTuples(ks, av, bv)) || respelledCopies(ks, av)) {
			sviol = func(f string, a ...interface{}) error { return rec.Known("D21", f, a...) }
			if respelledCopies(ks, av) {
				sviol = func(f string, a ...interface{}) error { return rec.Known("D41", f, a...) }
			}
		}
		if !same.OK() {
			return sviol("a.Patch(a.Diff(b)) on the same value %s\ndiff:\n%s", okWord(same), shown)
		}
		if !same.Node.Equals(jdx.NodeText(c.B), opts...) {
			return sviol("a.Patch(a.Diff(b)) on the same value = %s does not Equal b = %s under %s\ndiff:\n%s", same.Node.Json(), c.B, c.Opts, shown)
		}
	}
	// The diff value exactly as returned, applied to a fresh parse of a.
	out := jdx.Patch(jdx.NodeText(c.A), d)
	viol := rec.Violated
	if ks := jdx.SetKeysOf(c.Opts); len(ks) >= 2 && permutedKeyTuples(ks, av, bv) {
		// Known finding D21: the identity of a keyed member forgets which
		// key holds which value.
		viol = func(f string, a ...interface{}) error { return rec.Known("D21", f, a...) }
	}
	if ks := jdx.SetKeysOf(c.Opts); ks != nil && respelledCopies(ks, av) {
		// Known finding D41: copies of a keyed member that are the same value
		// as sets but spell a nested array (outside the key values) in another
		// member order.
		viol = func(f string, a ...interface{}) error { return rec.Known("D41", f, a...) }
	}
	if out.Panicked {
		return viol("Patch(a, a.Diff(b)) panicked: %s\ndiff:\n%s", out.PanicMsg, d.Render())
	}
	if out.Err != nil {
		return viol("Patch(a, a.Diff(b)) failed: %v\ndiff:\n%s", out.Err, d.Render())
	}
	bFresh := jdx.NodeText(c.B)
	if !out.Node.Equals(bFresh, opts...) {
		return viol("Patch(a, a.Diff(b)) = %s does not Equal b = %s under %s\ndiff:\n%s", out.Node.Json(), c.B, c.Opts, d.Render())
	}
	// Secondary, counted only: the canonical-form oracle on the result.
	rv, perr := val.Parse(out.Node.Json())
	cls := []string{"opts=" + c.Opts}
	if perr != nil {
		cls = append(cls, "result-json-unreadable")
	} else if !val.Equal(rv, bv, jdx.Reading(c.Opts)) {
		cls = append(cls, "jd-Equals-but-canon-differs")
	}
	hs, herr := jdx.ToHunks(d)
	if herr == nil {
		cls = append(cls, diffClasses(av, hs)...)
	}
	if val.IsVoid(av) || val.IsVoid(bv) {
		cls = append(cls, "void-involved")
	}
	if hasDupElems(av) || hasDupElems(bv) {
		cls = append(cls, "duplicate-elements")
	}
	_, aArr := av.([]val.V)
	_, bArr := bv.([]val.V)
	if aArr != bArr {
		cls = append(cls, "root-array<->non-array")
	}
	nontrivial := c.A != c.B && len(d) >= 1
	r.Case(c.A+"|"+c.B+"|"+c.Opts, nontrivial, cls...)
	if nontrivial {
		r.Sample(c)
	}
	return nil
}

// permutedKeyTuples reports whether two array-member objects of the documents
// have different key tuples that hold the same values under different keys
// (for example (id=0,k=1) and (id=1,k=0)).
// respelledCopies: some array of the document holds two object members with
// the same key tuple that are the same value under the set reading but not
// the same text: a nested array outside the key values is written in another
// member order (or with a repeated member).
func respelledCopies(keys []string, doc val.V) bool {
	found := false
	var walk func(v val.V)
	walk = func(v val.V) {
		switch x := v.(type) {
		case []val.V:
			seen := map[string]string{} // canonical set form -> canonical list form without the key values
			for _, e := range x {
				walk(e)
				o, ok := e.(map[string]val.V)
				if !ok {
					continue
				}
				rest := map[string]val.V{}
				for k, mv := range o {
					rest[k] = mv
				}
				for _, k := range keys {
					delete(rest, k)
				}
				asSet, asList := val.Canon(e, val.Set), val.Canon(rest, val.List)
				if prev, ok := seen[asSet]; ok && prev != asList {
					found = true
				}
				seen[asSet] = asList
			}
		case map[string]val.V:
			for _, e := range x {
				walk(e)
			}
		}
	}
	walk(doc)
	return found
}

// permutedKeyTuplesWithin: one array of the document holds two members whose
// key tuples are permutations of each other (the narrow form of the D21
// predicate, for checks in which the two documents are not merged).
func permutedKeyTuplesWithin(keys []string, doc val.V) bool {
	found := false
	var walk func(v val.V)
	walk = func(v val.V) {
		switch x := v.(type) {
		case []val.V:
			byBag := map[string]string{}
			for _, e := range x {
				walk(e)
				o, ok := e.(map[string]val.V)
				if !ok {
					continue
				}
				parts := make([]string, 0, len(keys))
				for _, k := range keys {
					if kv, ok := o[k]; ok {
						parts = append(parts, val.Canon(kv, val.Set))
					} else {
						parts = append(parts, "<absent>")
					}
				}
				tuple := strings.Join(parts, "|")
				sorted := append([]string{}, parts...)
				sort.Strings(sorted)
				bag := strings.Join(sorted, "|")
				if prev, ok := byBag[bag]; ok && prev != tuple {
					found = true
				}
				byBag[bag] = tuple
			}
		case map[string]val.V:
			for _, e := range x {
				walk(e)
			}
		}
	}
	walk(doc)
	return found
}

func permutedKeyTuples(keys []string, docs ...val.V) bool {
	byBag := map[string]string{}
	found := false
	var walk func(v val.V, inArray bool)
	walk = func(v val.V, inArray bool) {
		switch x := v.(type) {
		case []val.V:
			for _, e := range x {
				walk(e, true)
			}
		case map[string]val.V:
			if inArray {
				parts := make([]string, 0, len(keys))
				for _, k := range keys {
					if kv, ok := x[k]; ok {
						parts = append(parts, val.Canon(kv, val.Set))
					} else {
						parts = append(parts, "<absent>")
					}
				}
				tuple := strings.Join(parts, "|")
				sorted := append([]string{}, parts...)
				sort.Strings(sorted)
				bag := strings.Join(sorted, "|")
				if prev, ok := byBag[bag]; ok && prev != tuple {
					found = true
				}
				byBag[bag] = tuple
			}
			for _, e := range x {
				walk(e, false)
			}
		}
	}
	for _, d := range docs {
		walk(d, false)
	}
	return found
}

func init() { Register("C01", "random", checkC01); Register("C01", "exhaustive", checkC01) }

// hugeRunPair: more than 2^20 LCS cells, a is the shorter side and holds a
// run of equal elements that is longer in b.
func hugeRunPair(t *rapid.T) PairCase {
	n := gen.Int(t, "n", 1000, 1060)
	a := make([]val.V, 0, n)
	for i := 0; i < n; i++ {
		a = append(a, float64(i%40))
	}
	if kind := gen.Int(t, "hugeKind", 0, 2); kind > 0 {
		// the same length and one or two elements substituted, or one element gone
		n = gen.Int(t, "nExact", 1025, 1200*gen.Scale())
		a = a[:0]
		mod := gen.Pick(t, "hugeMod", []int{1, 2, 40, 5000})
		for i := 0; i < n; i++ {
			a = append(a, float64(i%mod))
		}
		b := append([]val.V{}, a...)
		if kind == 1 {
			for k := gen.Int(t, "nSubst", 1, 2); k > 0; k-- {
				b[gen.Pick(t, "substAt", []int{0, 1, n / 2, n - 2, n - 1, gen.Int(t, "substAny", 0, n-1)})] = "changed"
			}
		} else {
			i := gen.Pick(t, "goneAt", []int{0, n / 2, n - 1})
			b = append(b[:i:i], b[i+1:]...)
		}
		var av, bv val.V = a, b
		if gen.Chance(t, "underKey", 40) {
			av, bv = map[string]val.V{"k": a, "z": 1.0}, map[string]val.V{"k": b, "z": 1.0}
		}
		return PairCase{A: val.JSON(av), B: val.JSON(bv), Opts: "list"}
	}
	at := gen.Int(t, "runAt", 100, n-100)
	elem := gen.Pick(t, "runElem", []val.V{0.0, "", map[string]val.V{"k": 1.0}})
	run := gen.Int(t, "run", 2, 30)
	withRun := func(extra int) []val.V {
		out := append([]val.V{}, a[:at]...)
		for i := 0; i < run+extra; i++ {
			out = append(out, val.Clone(elem))
		}
		return append(out, a[at:]...)
	}
	av := withRun(0)
	bv := withRun(gen.Int(t, "grow", 1, 60))
	if gen.Chance(t, "headTail", 50) {
		bv = append([]val.V{"h"}, bv...)
		bv = append(bv, "t")
	}
	return PairCase{A: val.JSON(av), B: val.JSON(bv), Opts: "list"}
}

func TestC01Random(t *testing.T) {
	RunRandom(t, "C01", "random", func(t *rapid.T) PairCase {
		if gen.Rare(t, "hugeRun", 1) && gen.Chance(t, "hugeRun2", 50) {
			return hugeRunPair(t)
		}
		return genPairCase(t, c01OptSets, func(p *gen.Profile) {
			p.RespellAll = true // the D41 predicate is applied in this leg
			if gen.Int(t, "deep", 0, 9) == 0 {
				p.MaxDepth = 4
			}
			if gen.Int(t, "long", 0, 9) < 2 {
				p.MaxArr = 9
			}
		})
	}, checkC01)
}

var c01alphabet = []val.V{0.0, 1.0, []val.V{0.0}, map[string]val.V{"a": 0.0}}

func enumArrays(alphabet []val.V, maxLen int) []val.V {
	var out []val.V
	var rec func(cur []val.V)
	rec = func(cur []val.V) {
		out = append(out, val.Clone(cur))
		if len(cur) == maxLen {
			return
		}
		for _, s := range alphabet {
			rec(append(append([]val.V{}, cur...), s))
		}
	}
	rec([]val.V{})
	return out
}

func TestC01Exhaustive(t *testing.T) {
	maxLen := 3
	if thorough() {
		maxLen = 4
	}
	arrs := enumArrays(c01alphabet, maxLen)
	e := NewEnum(t, "C01", "exhaustive", checkC01)
	defer e.Done()
	e.r.Notes["arrays"] = len(arrs)
	e.r.Notes["max_len"] = maxLen
	for _, a := range arrs {
		if !e.Mine() {
			continue
		}
		for _, b := range arrs {
			for _, opts := range []string{"list", "set", "mset"} {
				e.Do(PairCase{A: val.JSON(a), B: val.JSON(b), Opts: opts})
				e.Do(PairCase{A: val.JSON(map[string]val.V{"k": a}), B: val.JSON(map[string]val.V{"k": b}), Opts: opts})
			}
		}
	}
}
