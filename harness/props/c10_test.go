package props

import (
	"fmt"
	"strconv"
	"strings"
	"testing"

	jd "github.com/josephburnett/jd/v2"
	"pgregory.net/rapid"

	"verifjd/gen"
	"verifjd/jdx"
	"verifjd/rec"
	"verifjd/ref"
	"verifjd/val"
)

// C10 — RFC 6902 input is read faithfully (never more permissive than the RFC).

// PatchCase: the JSON Patch document Patch (a variation, inside the supported
// subset, of jd's rendering of A.Diff(B)) is read by jd and applied to C.
type PatchCase struct {
	A        string `json:"a"`
	B        string `json:"b"`
	Patch    string `json:"patch"`
	Varied   string `json:"varied"` // "" = jd's own output
	C        string `json:"c"`
	How      string `json:"how,omitempty"`
	Unvaried bool   `json:"unvaried"`
}

func checkC10(c PatchCase, r *rec.Rec) error {
	cv, err := val.Parse(c.C)
	if err != nil {
		return fmt.Errorf("bad case: %v", err)
	}
	pv, err := val.Parse(c.Patch)
	if err != nil {
		return fmt.Errorf("bad case: %v", err)
	}
	var d jd.Diff
	var rerr error
	if msg, p := jdx.Guard(func() { d, rerr = jd.ReadPatchString(c.Patch) }); p {
		return rec.Violated("ReadPatchString panicked: %s\npatch: %s", msg, c.Patch)
	}
	cls := []string{"varied=" + c.Varied, "how=" + c.How}
	if c.Unvaried {
		// jd's own output read back and applied to a reproduces b
		if rerr != nil {
			return rec.Violated("jd cannot read its own JSON Patch: %v\npatch: %s", rerr, c.Patch)
		}
		d2, _ := jd.ReadPatchString(c.Patch)
		out := jdx.Patch(jdx.NodeText(c.A), d2)
		if !out.OK() {
			return rec.Violated("jd's own JSON Patch, read back, does not apply to a: %s\npatch: %s", okWord(out), c.Patch)
		}
		if !out.Node.Equals(jdx.NodeText(c.B)) {
			return rec.Violated("jd's own JSON Patch, read back, turns a into %s, not into b = %s\npatch: %s", out.Node.Json(), c.B, c.Patch)
		}
	}
	if rerr != nil {
		r.Case(c.Patch+"|"+c.C, false, append(cls, "jd-read-rejects")...)
		return nil
	}
	out := jdx.Patch(jdx.NodeText(c.C), d)
	if !out.OK() {
		k := "jd-patch-rejects"
		if out.Panicked {
			k = "jd-patch-panics(counts-as-rejected)"
		}
		r.Case(c.Patch+"|"+c.C, false, append(cls, k)...)
		return nil
	}
	jdRes, err := val.Parse(out.Node.Json())
	if err != nil {
		return rec.Violated("result of Patch is not readable JSON: %v", err)
	}
	want, err := ref.Patch6902(cv, pv)
	if err != nil {
		return rec.Violated("jd reads and applies the patch to %s (result %s) but under RFC 6902 it does not apply: %v\npatch: %s\nas read by jd:\n%s", c.C, val.JSON(jdRes), err, c.Patch, d.Render())
	}
	if !val.Equal(jdRes, want, val.List) {
		return rec.Violated("on %s jd gives %s, RFC 6902 gives %s\npatch: %s\nas read by jd:\n%s", c.C, val.JSON(jdRes), val.JSON(want), c.Patch, d.Render())
	}
	cls = append(cls, "jd-accepts")
	nontrivial := c.Varied != "" || c.C != c.A
	if c.Varied != "" {
		cls = append(cls, "jd-accepts-varied")
	}
	if c.C != c.A {
		cls = append(cls, "jd-accepts-on-c!=a")
	}
	r.Case(c.Patch+"|"+c.C, nontrivial, cls...)
	if nontrivial {
		r.Sample(c)
	}
	return nil
}

// opGroup is the run of ops jd writes for one hunk.
type opGroup struct {
	ctx   []map[string]val.V // context tests
	pairs []map[string]val.V // test, remove, test, remove ...
	adds  []map[string]val.V
}

func (g opGroup) all() []map[string]val.V {
	out := append([]map[string]val.V{}, g.ctx...)
	out = append(out, g.pairs...)
	return append(out, g.adds...)
}

func cloneOp(m map[string]val.V) map[string]val.V {
	return val.Clone(m).(map[string]val.V)
}

// splitGroups cuts jd's op list into per-hunk groups using the hunks.
func splitGroups(ops []val.V, hs []ref.Hunk) ([]opGroup, bool) {
	var out []opGroup
	i := 0
	take := func(n int) ([]map[string]val.V, bool) {
		if i+n > len(ops) {
			return nil, false
		}
		var res []map[string]val.V
		for _, o := range ops[i : i+n] {
			m, ok := o.(map[string]val.V)
			if !ok {
				return nil, false
			}
			res = append(res, cloneOp(m))
		}
		i += n
		return res, true
	}
	for _, h := range hs {
		nctx := 0
		for _, v := range h.Before {
			if !val.IsVoid(v) {
				nctx++
			}
		}
		for _, v := range h.After {
			if !val.IsVoid(v) {
				nctx++
			}
		}
		var g opGroup
		var ok bool
		if g.ctx, ok = take(nctx); !ok {
			return nil, false
		}
		nrem := 0
		for _, v := range h.Remove {
			if !val.IsVoid(v) {
				nrem++
			}
		}
		if g.pairs, ok = take(2 * nrem); !ok {
			return nil, false
		}
		nadd := 0
		for _, v := range h.Add {
			if !val.IsVoid(v) {
				nadd++
			}
		}
		if g.adds, ok = take(nadd); !ok {
			return nil, false
		}
		out = append(out, g)
	}
	return out, i == len(ops)
}

func lastToken(path string) (prefix, tok string) {
	i := strings.LastIndex(path, "/")
	if i < 0 {
		return "", ""
	}
	return path[:i], path[i+1:]
}

func isIndexToken(tok string) bool {
	if tok == "" {
		return false
	}
	for _, ch := range tok {
		if ch < '0' || ch > '9' {
			return false
		}
	}
	return tok == "0" || tok[0] != '0'
}

// valueAt returns what the target holds at a pointer (for "plausible"
// variations that still match).
func valueAt(doc val.V, ptr string) (val.V, bool) {
	toks, err := ref.ParsePointer(ptr)
	if err != nil {
		return nil, false
	}
	cur := doc
	for _, tk := range toks {
		switch x := cur.(type) {
		case map[string]val.V:
			c, ok := x[tk]
			if !ok {
				return nil, false
			}
			cur = c
		case []val.V:
			i, err := strconv.Atoi(tk)
			if err != nil || i < 0 || i >= len(x) {
				return nil, false
			}
			cur = x[i]
		default:
			return nil, false
		}
	}
	return cur, true
}

// vary applies one subset-preserving variation to the groups.
func vary(t *rapid.T, groups []opGroup, target val.V) ([]opGroup, string) {
	if len(groups) == 0 {
		return groups, ""
	}
	gi := gen.Int(t, "group", 0, len(groups)-1)
	g := &groups[gi]
	switch gen.Int(t, "variation", 0, 11) {
	case 11: // a test/remove pair addressed to "-", the element after the last one
		if len(g.pairs) >= 2 {
			k := 2 * gen.Int(t, "pair", 0, len(g.pairs)/2-1)
			prefix, tok := lastToken(g.pairs[k]["path"].(string))
			if isIndexToken(tok) {
				g.pairs[k]["path"] = prefix + "/-"
				g.pairs[k+1]["path"] = prefix + "/-"
				return groups, "pair-at-dash"
			}
		}
	case 10: // a context-free hunk re-addressed to the parent of the hunk before it
		if gi > 0 && len(g.ctx) == 0 {
			prev := groups[gi-1].all()
			if len(prev) > 0 {
				parent, _ := lastToken(prev[len(prev)-1]["path"].(string))
				for _, op := range g.all() {
					op["path"] = parent
				}
				return groups, "parent-path"
			}
		}
	case 9: // every add of an insert-only hunk becomes an append
		// Without context tests this is plainly inside the subset. With a
		// before-context test only (the hunk sits at the end of its array in
		// a), the test is next to the edit position on the document a, so the
		// caller then uses a as the target.
		if len(g.pairs) == 0 && len(g.adds) >= 1 && len(g.ctx) <= 1 {
			ok := true
			for _, op := range g.adds {
				_, tok := lastToken(op["path"].(string))
				if !isIndexToken(tok) {
					ok = false
				}
			}
			if len(g.ctx) == 1 {
				// must be the before context: one index below the adds
				_, ct := lastToken(g.ctx[0]["path"].(string))
				_, at := lastToken(g.adds[0]["path"].(string))
				ci, err1 := strconv.Atoi(ct)
				ai, err2 := strconv.Atoi(at)
				if err1 != nil || err2 != nil || ci != ai-1 {
					ok = false
				}
			}
			if ok {
				// jd writes the adds of a hunk in reverse order at one index;
				// appended one after the other they have to be in document order
				for l, r := 0, len(g.adds)-1; l < r; l, r = l+1, r-1 {
					g.adds[l], g.adds[r] = g.adds[r], g.adds[l]
				}
				for _, op := range g.adds {
					prefix, _ := lastToken(op["path"].(string))
					op["path"] = prefix + "/-"
				}
				if len(g.ctx) == 1 {
					return groups, "append-all-with-before-context"
				}
				return groups, "append-all"
			}
		}
	case 7: // the same hunk twice in a row (each copy is a hunk of the supported shape)
		cp := opGroup{}
		for _, op := range g.ctx {
			cp.ctx = append(cp.ctx, cloneOp(op))
		}
		for _, op := range g.pairs {
			cp.pairs = append(cp.pairs, cloneOp(op))
		}
		for _, op := range g.adds {
			cp.adds = append(cp.adds, cloneOp(op))
		}
		out := append([]opGroup{}, groups[:gi+1]...)
		out = append(out, cp)
		out = append(out, groups[gi+1:]...)
		return out, "duplicate-hunk"
	case 8: // an index token written as a number that is not an RFC 6901 array index
		// (only on the edit ops: a context test must name an element next to
		// the edit position, otherwise the patch leaves the supported subset)
		ops := append(append([]map[string]val.V{}, g.pairs...), g.adds...)
		if len(ops) > 0 {
			op := ops[gen.Int(t, "whichOp", 0, len(ops)-1)]
			prefix, tok := lastToken(op["path"].(string))
			if isIndexToken(tok) {
				op["path"] = prefix + "/" + tok + gen.Pick(t, "oddSuffix", []string{".0", "e0", ".5", "E0", "_0"})
				if gen.Chance(t, "leadingZero", 20) {
					op["path"] = prefix + "/0" + tok
				}
				if gen.Chance(t, "signed", 25) {
					op["path"] = prefix + "/" + gen.Pick(t, "sign", []string{"+", "-"}) + tok
				}
				if gen.Chance(t, "dashInside", 30) {
					// "-" where an element has to be named, followed by more tokens
					op["path"] = prefix + "/-/" + tok
					if gen.Chance(t, "dashKey", 50) {
						op["path"] = prefix + "/-/x"
					}
				}
				return groups, "odd-index-token"
			}
		}
	case 0: // value of a matching test/remove pair
		if len(g.pairs) >= 2 {
			k := 2 * gen.Int(t, "pair", 0, len(g.pairs)/2-1)
			var nv val.V = freshScalar(t)
			if gen.Chance(t, "plausible", 50) {
				if v, ok := valueAt(target, g.pairs[k]["path"].(string)); ok {
					nv = val.Clone(v)
				}
			}
			g.pairs[k]["value"] = nv
			g.pairs[k+1]["value"] = val.Clone(nv)
			return groups, "pair-value"
		}
	case 1, 2: // shift every op of the hunk that ends in an index
		delta := gen.Pick(t, "delta", []int{-2, -1, 1, 1, 2, 3})
		ops := g.all()
		newPaths := make([]string, len(ops))
		for k, op := range ops {
			prefix, tok := lastToken(op["path"].(string))
			if !isIndexToken(tok) {
				return groups, ""
			}
			n, _ := strconv.Atoi(tok)
			if n+delta < 0 {
				return groups, ""
			}
			newPaths[k] = prefix + "/" + strconv.Itoa(n+delta)
		}
		if len(ops) == 0 {
			return groups, ""
		}
		for k, op := range ops {
			op["path"] = newPaths[k]
		}
		return groups, "shift"
	case 3: // drop a hunk
		if len(groups) >= 2 {
			groups = append(groups[:gi:gi], groups[gi+1:]...)
			return groups, "drop-hunk"
		}
	case 4: // drop context tests
		if len(g.ctx) > 0 {
			if len(g.ctx) == 2 && gen.Chance(t, "dropOne", 50) {
				k := gen.Int(t, "which", 0, 1)
				g.ctx = []map[string]val.V{g.ctx[1-k]}
				return groups, "drop-one-context"
			}
			g.ctx = nil
			return groups, "drop-context"
		}
	case 5: // last add becomes an append, only without context tests
		if len(g.ctx) == 0 && len(g.pairs) == 0 && len(g.adds) > 0 {
			op := g.adds[len(g.adds)-1]
			prefix, tok := lastToken(op["path"].(string))
			if isIndexToken(tok) {
				op["path"] = prefix + "/-"
				return groups, "append"
			}
		}
	default: // value of a context test
		if len(g.ctx) > 0 {
			k := gen.Int(t, "ctx", 0, len(g.ctx)-1)
			var nv val.V = freshScalar(t)
			if gen.Chance(t, "plausible", 50) {
				if v, ok := valueAt(target, g.ctx[k]["path"].(string)); ok {
					nv = val.Clone(v)
				}
			}
			g.ctx[k]["value"] = nv
			return groups, "context-value"
		}
	}
	return groups, ""
}

func groupsJSON(groups []opGroup) string {
	var ops []val.V
	for _, g := range groups {
		for _, op := range g.all() {
			ops = append(ops, map[string]val.V(op))
		}
	}
	if ops == nil {
		ops = []val.V{}
	}
	return val.JSON(ops)
}

func genC10(t *rapid.T) PatchCase {
	var a, b val.V
	p := gen.Profile{ArrayBias: 60, MaxArr: 8}
	if gen.Chance(t, "repetitive", 40) {
		// arrays over 1-2 symbols: shifted hunks still match by coincidence
		syms := []val.V{0.0, 1.0}
		mk := func(n int) []val.V {
			out := make([]val.V, n)
			for i := range out {
				out[i] = syms[gen.Int(t, "sym", 0, 1)]
			}
			return out
		}
		arr := mk(gen.Int(t, "n", 4, 10))
		b2 := val.Clone(arr).([]val.V)
		for k := gen.Int(t, "edits", 1, 3); k > 0; k-- {
			b2 = c06editTop(t, b2, gen.Profile{ScalarArr: true})
		}
		switch gen.Int(t, "wrap", 0, 2) {
		case 0:
			a, b = arr, b2
		case 1:
			a, b = map[string]val.V{"k": arr}, map[string]val.V{"k": b2}
		default:
			a, b = []val.V{"L", arr}, []val.V{"L", b2}
		}
	} else {
		if gen.Chance(t, "nasty", 30) {
			p.NastyKeys = true
		}
		a = gen.Doc(t, p)
		b = gen.EditN(t, a, p, 1, 4)
	}
	c := PatchCase{A: val.JSON(a), B: val.JSON(b)}
	d, _, panicked := jdx.DiffSafe(jdx.Node(a), jdx.Node(b), nil)
	var hs []ref.Hunk
	if !panicked {
		hs, _ = jdx.ToHunks(d)
	}
	tv, how := drawTarget(t, a, b, hs, p)
	c.C, c.How = val.JSON(tv), how
	var ptext string
	var perr error
	jdx.Guard(func() { ptext, perr = jdx.Node(a).Diff(jdx.Node(b)).RenderPatch() })
	if perr != nil || ptext == "" {
		c.Patch, c.Unvaried = "[]", false
		c.Varied = "unrenderable"
		return c
	}
	c.Patch, c.Unvaried = ptext, true
	if gen.Chance(t, "unvaried", 30) {
		return c
	}
	pv, err := val.Parse(ptext)
	ops, ok := pv.([]val.V)
	if err != nil || !ok {
		return c
	}
	groups, ok := splitGroups(ops, hs)
	if !ok {
		return c
	}
	n := gen.Int(t, "nVariations", 1, 3)
	var names []string
	for i := 0; i < n; i++ {
		var name string
		groups, name = vary(t, groups, tv)
		if name != "" {
			names = append(names, name)
		}
	}
	if len(names) > 0 {
		c.Patch, c.Unvaried = groupsJSON(groups), false
		c.Varied = strings.Join(names, "+")
		if strings.Contains(c.Varied, "append-all-with-before-context") {
			// the context test is adjacent to the end of the array only on a
			// (and only if the hunk really sits at the end there)
			c.C, c.How = c.A, "a"
		}
	}
	if gen.Chance(t, "extraMember", 8) {
		// RFC 6902, section 4: members that are not defined for the operation
		// are ignored. The extra member is spelled like a defined one, in
		// another case, and comes after it in the text.
		if pv, err := val.Parse(c.Patch); err == nil {
			if ops, ok := pv.([]val.V); ok && len(ops) > 0 {
				k := gen.Int(t, "extraAt", 0, len(ops)-1)
				extra := gen.Pick(t, "extraText", []string{`"Value":"zz"`, `"VALUE":[1]`, `"Path":"/zz"`, `"PATH":""`, `"OP":"remove"`, `"Op":"test"`, `"from":"/a"`, `"extra":1`, `"valuE":null`})
				parts := make([]string, len(ops))
				for i, op := range ops {
					parts[i] = val.JSON(op)
					if i == k {
						parts[i] = strings.TrimSuffix(parts[i], "}") + "," + extra + "}"
					}
				}
				c.Patch = "[" + strings.Join(parts, ",") + "]"
				c.Unvaried = false
				if c.Varied == "" {
					c.Varied = "extra-member"
				} else {
					c.Varied += "+extra-member"
				}
			}
		}
	}
	return c
}

func init() { Register("C10", "random", checkC10) }

func TestC10Random(t *testing.T) { RunRandom(t, "C10", "random", genC10, checkC10) }
