package props

import (
	"fmt"
	"os"
	"path/filepath"
	"testing"

	jd "github.com/josephburnett/jd/v2"
	"pgregory.net/rapid"

	"verifjd/gen"
	"verifjd/jdx"
	"verifjd/rec"
	"verifjd/ref"
	"verifjd/val"
)

// The file entry points (ReadPatchFile, ReadMergeFile) are decided by the same
// oracles as the string entry points, each on its own: a JSON Patch that a
// route reads and applies must give what the independent RFC 6902 evaluation
// gives; a JSON Merge Patch document must be read, applied and give what RFC
// 7386 says. Texts that are not such documents at all (something after the
// closing bracket, a byte order mark) are counted and not judged: the
// properties quantify over patch documents.

type FileRouteCase struct {
	Kind   string `json:"kind"` // patch | merge
	Text   string `json:"text"`
	Target string `json:"target"`
}

func checkFileRoute(prop string) func(c FileRouteCase, r *rec.Rec) error {
	return func(c FileRouteCase, r *rec.Rec) error {
		tv, err := val.Parse(c.Target)
		if err != nil {
			return fmt.Errorf("bad case: %v", err)
		}
		dir, cleanup := caseDir()
		defer cleanup()
		path := filepath.Join(dir, "doc")
		if err := os.WriteFile(path, []byte(c.Text), 0o644); err != nil {
			return inconclusive{err.Error()}
		}
		pv, jsonErr := val.Parse(c.Text)
		_, isArray := pv.([]val.V)
		document := jsonErr == nil && !val.IsVoid(pv) && (c.Kind == "merge" || isArray)
		cls := []string{"kind=" + c.Kind}
		if !document {
			cls = append(cls, "not-a-"+c.Kind+"-document")
		}
		for _, route := range []string{"string", "file"} {
			var d jd.Diff
			var rerr error
			if msg, p := jdx.Guard(func() {
				switch c.Kind + "/" + route {
				case "patch/string":
					d, rerr = jd.ReadPatchString(c.Text)
				case "patch/file":
					d, rerr = jd.ReadPatchFile(path)
				case "merge/string":
					d, rerr = jd.ReadMergeString(c.Text)
				default:
					d, rerr = jd.ReadMergeFile(path)
				}
			}); p {
				return rec.Violated("reading %q as %s from a %s panicked: %s", c.Text, c.Kind, route, msg)
			}
			if !document {
				if rerr == nil {
					cls = append(cls, route+"-accepts-non-document")
				}
				continue
			}
			_, tObj := tv.(map[string]val.V)
			po, pObj := pv.(map[string]val.V)
			known := c.Kind == "merge" && (pv == nil || (pObj && len(po) == 0 && !tObj)) // D16 / D17, decided in the other C12 legs
			if rerr != nil {
				if c.Kind == "merge" && !known {
					return rec.Violated("the merge patch document %q is rejected when read from a %s: %v", c.Text, route, rerr)
				}
				cls = append(cls, route+"-rejects")
				continue
			}
			out := jdx.Patch(jdx.NodeText(c.Target), d)
			if !out.OK() {
				if c.Kind == "merge" && !known {
					return rec.Violated("the merge patch document %q, read from a %s, does not apply to %s: %s", c.Text, route, c.Target, okWord(out))
				}
				cls = append(cls, route+"-patch-rejects")
				continue
			}
			got, err := val.Parse(out.Node.Json())
			if err != nil {
				return rec.Violated("result of Patch is not readable JSON: %v", err)
			}
			if c.Kind == "patch" {
				want, err := ref.Patch6902(tv, pv)
				if err != nil {
					return rec.Violated("jd reads the patch %q from a %s and applies it to %s (result %s), under RFC 6902 it does not apply: %v", c.Text, route, c.Target, val.JSON(got), err)
				}
				if !val.Equal(got, want, val.List) {
					return rec.Violated("the patch %q read from a %s, on %s: jd gives %s, RFC 6902 %s", c.Text, route, c.Target, val.JSON(got), val.JSON(want))
				}
			} else if !known {
				if want := ref.MergePatch(tv, pv); !val.Equal(got, want, val.List) {
					return rec.Violated("the merge patch %q read from a %s, on %s: jd gives %s, RFC 7386 %s", c.Text, route, c.Target, val.JSON(got), val.JSON(want))
				}
			}
			cls = append(cls, route+"-applies")
		}
		_ = prop
		r.Case(c.Kind+"|"+c.Text+"|"+c.Target, document, cls...)
		if document {
			r.Sample(c)
		}
		return nil
	}
}

var trailers = []string{"", "", "", "", "\n", "\n", " \n\t", "\r\n", "\n\n\n", " ", "\t", "]", "[]", "\n[]", "{}", "x", "\n# note\n", "\x00", ",", "null", "\ufeff"}
var leaders = []string{"", "", "", "", "", "\n", " ", "\t", "\r\n", " \n ", "\ufeff"}

func genFileRoute(kind string) func(t *rapid.T) FileRouteCase {
	return func(t *rapid.T) FileRouteCase {
		var text, target string
		switch kind {
		case "patch":
			a, b, _ := genListPairNasty(t)
			jdx.Guard(func() { text, _ = jdx.Node(a).Diff(jdx.Node(b)).RenderPatch() })
			target = val.JSON(a)
			if val.IsVoid(a) {
				target = "[1]"
			}
		case "merge":
			tv := gen.Object(t, gen.Profile{MaxDepth: 3}, 0)
			text = val.JSON(genMergeDoc(t, tv))
			target = val.JSON(tv)
		default:
			pc := genPairCase(t, []string{"list", "set", "merge"}, nil)
			jdx.Guard(func() {
				text = jdx.NodeText(pc.A).Diff(jdx.NodeText(pc.B), jdx.Options(pc.Opts)...).Render()
			})
			target = pc.A
			if val.IsVoid(val.MustParse(pc.A)) {
				target = "[1]"
			}
		}
		text = gen.Pick(t, "leader", leaders) + text + gen.Pick(t, "trailer", trailers)
		if gen.Chance(t, "twice", 5) {
			text += text
		}
		return FileRouteCase{Kind: kind, Text: text, Target: target}
	}
}

func init() {
	Register("C10", "file", checkFileRoute("C10"))
	Register("C12", "file", checkFileRoute("C12"))
}

func TestC10File(t *testing.T) {
	RunRandom(t, "C10", "file", genFileRoute("patch"), checkFileRoute("C10"))
}
func TestC12File(t *testing.T) {
	RunRandom(t, "C12", "file", genFileRoute("merge"), checkFileRoute("C12"))
}
