package props

import (
	"encoding/binary"
	"fmt"
	"math"
	"strings"
	"testing"

	jd "github.com/josephburnett/jd/v2"
	"pgregory.net/rapid"

	"verifjd/gen"
	"verifjd/jdx"
	"verifjd/rec"
	"verifjd/ref"
	"verifjd/val"
)

// C03 — strict patches apply only where they match; bad patches are rejected.

// TargetCase: d = A.Diff(B, Opts); the hunks whose index is in Keep (all if
// Keep is nil) are applied to the target document C.
type TargetCase struct {
	A    string `json:"a"`
	B    string `json:"b"`
	Opts string `json:"opts"`
	Keep []int  `json:"keep"`
	C    string `json:"c"`
	How  string `json:"how,omitempty"` // how C was derived (informational)
	// Text: the kept hunks are rendered and read back first (a hand-edited
	// patch is a text file).
	Text bool `json:"text,omitempty"`
	// Widen: every list hunk gets a second context line on each side, taken
	// from the document the diff was made for (the element two places away,
	// or the [ / ] marker where the array ends there), as someone extending
	// a patch by hand would.
	Widen bool `json:"widen,omitempty"`
}

// widenContext returns the kept hunks with two-line context.
func widenContext(a val.V, hs []ref.Hunk, keep []int) []ref.Hunk {
	wide := make([]ref.Hunk, len(hs))
	cur := val.Clone(a)
	for k, h := range hs {
		wide[k] = h
		if n := len(h.Path); n > 0 && h.Path[n-1].Kind == ref.Index && !h.Merge {
			if at, present, err := locate(cur, h.Path[:n-1]); err == nil && present {
				if l, ok := at.([]val.V); ok {
					i := h.Path[n-1].Index
					w := h
					if len(h.Before) == 1 && !val.IsVoid(h.Before[0]) && i >= 1 && i-1 < len(l) {
						if i-2 >= 0 {
							w.Before = []val.V{val.Clone(l[i-2]), h.Before[0]}
						} else {
							w.Before = []val.V{val.Void, h.Before[0]}
						}
					}
					j := i + len(h.Remove)
					if len(h.After) == 1 && !val.IsVoid(h.After[0]) && j < len(l) {
						if j+1 < len(l) {
							w.After = []val.V{h.After[0], val.Clone(l[j+1])}
						} else {
							w.After = []val.V{h.After[0], val.Void}
						}
					}
					wide[k] = w
				}
			}
		}
		if nxt, err := ref.Apply(cur, h); err == nil {
			cur = nxt
		}
	}
	if keep == nil {
		return wide
	}
	var out []ref.Hunk
	for _, k := range keep {
		if k >= 0 && k < len(wide) {
			out = append(out, wide[k])
		}
	}
	return out
}

func subDiff(d jd.Diff, hs []ref.Hunk, keep []int) (jd.Diff, []ref.Hunk) {
	if keep == nil {
		return d, hs
	}
	var sd jd.Diff
	var sh []ref.Hunk
	for _, k := range keep {
		if k >= 0 && k < len(d) {
			sd = append(sd, d[k])
			sh = append(sh, hs[k])
		}
	}
	return sd, sh
}

// hunkDepthClass says where the array edited by a list hunk sits.
func hunkDepthClass(h ref.Hunk) string {
	if len(h.Path) == 0 || h.Path[len(h.Path)-1].Kind != ref.Index {
		return "non-list-hunk"
	}
	if len(h.Path) == 1 {
		return "root-array"
	}
	switch h.Path[len(h.Path)-2].Kind {
	case ref.Key:
		return "array-under-key"
	case ref.Index:
		return "array-under-index"
	}
	return "array-under-member"
}

func hasRealContext(hs []ref.Hunk) bool {
	for _, h := range hs {
		for _, v := range h.Before {
			if !val.IsVoid(v) {
				return true
			}
		}
		for _, v := range h.After {
			if !val.IsVoid(v) {
				return true
			}
		}
	}
	return false
}

func checkC03(c TargetCase, r *rec.Rec) error {
	cv, err := val.Parse(c.C)
	if err != nil {
		return fmt.Errorf("bad case: %v", err)
	}
	d, pmsg, panicked := jdx.DiffSafe(jdx.NodeText(c.A), jdx.NodeText(c.B), jdx.Options(c.Opts))
	if panicked {
		return rec.Violated("Diff panicked: %s", pmsg)
	}
	hs, err := jdx.ToHunks(d)
	if err != nil {
		return rec.Violated("diff holds an unreadable node: %v", err)
	}
	sd, sh := subDiff(d, hs, c.Keep)
	if c.Widen {
		av, err := val.Parse(c.A)
		if err != nil {
			return fmt.Errorf("bad case: %v", err)
		}
		sh = widenContext(av, hs, c.Keep)
		sd = jdx.FromHunks(sh)
	}

	// Reference verdict, hunk by hunk.
	cur := val.Clone(cv)
	var refErr error
	failedAt := -1
	for k, h := range sh {
		nxt, err := ref.Apply(cur, h)
		if err != nil {
			refErr, failedAt = err, k
			break
		}
		cur = nxt
	}
	if refErr != nil && ref.ReasonOf(refErr) == ref.RMalformed {
		r.Class("out-of-domain:" + refErr.Error())
		return nil
	}

	cls := []string{"how=" + c.How}
	if c.Widen {
		cls = append(cls, "two-line-context")
	}
	if c.Text {
		cls = append(cls, "through-text")
		rendered := sd.Render()
		sd2, err := jd.ReadDiffString(rendered)
		if err != nil {
			return rec.Violated("jd cannot read the rendered hunks: %v\n%s", err, truncateText(rendered, 2000))
		}
		sd = sd2
	}
	out := jdx.Patch(jdx.NodeText(c.C), sd)
	jdFails := !out.OK()

	if out.Panicked {
		// "otherwise Patch returns an error": a panic is neither a result nor an error
		return rec.Violated("Patch panicked on %s: %s\ndiff:\n%s", c.C, out.PanicMsg, sd.Render())
	}
	switch {
	case refErr != nil && !jdFails:
		return rec.Violated("hunk %d must not apply to %s (%v) but Patch succeeded with %s\nhunk: %s", failedAt, c.C, refErr, out.Node.Json(), sh[failedAt])
	case refErr == nil && jdFails:
		msg := out.PanicMsg
		if out.Err != nil {
			msg = out.Err.Error()
		}
		return rec.Violated("every expectation of the hunks holds on %s (reference result %s) but Patch failed: %s\ndiff:\n%s", c.C, val.JSON(cur), msg, sd.Render())
	case refErr == nil:
		got, err := val.Parse(out.Node.Json())
		if err != nil {
			return rec.Violated("result of Patch is not readable JSON: %v", err)
		}
		if !val.Equal(got, cur, val.List) {
			return rec.Violated("Patch gives %s, the hunks say %s\ndiff:\n%s", val.JSON(got), val.JSON(cur), sd.Render())
		}
		cls = append(cls, "accepted")
		if c.C != c.A {
			cls = append(cls, "accepted-on-c!=a")
		}
	default:
		reason := string(ref.ReasonOf(refErr))
		cls = append(cls, "rejected:"+reason)
		cls = append(cls, "rejected:"+reason+":"+hunkDepthClass(sh[failedAt]))
	}
	nontrivial := hasRealContext(sh) && c.C != c.A
	fp := c.A + "|" + c.B + "|" + c.C + "|" + fmt.Sprint(c.Keep)
	r.Case(fp, nontrivial, cls...)
	if nontrivial {
		r.Sample(c)
	}
	return nil
}

func init() { Register("C03", "random", checkC03) }

// drawKeep draws a sub-sequence of hunk indices (nil = all).
func drawKeep(t *rapid.T, n int) []int {
	if n == 0 {
		return nil
	}
	switch gen.Int(t, "keepMode", 0, 3) {
	case 0, 1:
		return nil
	case 2:
		return []int{gen.Int(t, "keepOne", 0, n-1)}
	default:
		keep := []int{}
		for i := 0; i < n; i++ {
			if gen.Chance(t, "keepThis", 65) {
				keep = append(keep, i)
			}
		}
		return keep
	}
}

func stepsOf(p []ref.PathElem) ([]gen.Step, bool) {
	out := make([]gen.Step, 0, len(p))
	for _, e := range p {
		switch e.Kind {
		case ref.Key:
			out = append(out, gen.Step{Key: e.Key})
		case ref.Index:
			out = append(out, gen.Step{IsIndex: true, Index: e.Index})
		default:
			return nil, false
		}
	}
	return out, true
}

func freshScalar(t *rapid.T) val.V {
	return gen.Pick(t, "fresh", []val.V{"zz", 7.0, nil, true, "a", 0.0, 1.0, 2.0, []val.V{}, map[string]val.V{}})
}

// perturbNear edits doc in the neighbourhood of the position a list hunk
// addresses. ok=false if the hunk's array is not there.
func perturbNear(t *rapid.T, doc val.V, h ref.Hunk) (val.V, string, bool) {
	if len(h.Path) == 0 || h.Path[len(h.Path)-1].Kind != ref.Index {
		return nil, "", false
	}
	steps, ok := stepsOf(h.Path[:len(h.Path)-1])
	if !ok {
		return nil, "", false
	}
	at, ok := gen.At(doc, steps)
	if !ok {
		return nil, "", false
	}
	l, ok := at.([]val.V)
	if !ok {
		return nil, "", false
	}
	i := h.Path[len(h.Path)-1].Index
	end := i + len(h.Remove)
	l = append([]val.V{}, l...)
	how := ""
	set := func(pos int) bool {
		if pos < 0 || pos >= len(l) {
			return false
		}
		l[pos] = freshScalar(t)
		return true
	}
	if gen.Chance(t, "hashTwin", 4) {
		// an element that the hunk names (context or removed value) replaced by
		// the number whose bytes equal that value's fixed hash input
		twins := map[string]float64{}
		for k, b := range magicBytes[:4] {
			twins[[]string{"N", "A0()", "O0{}", "S0:"}[k]] = math.Float64frombits(binary.LittleEndian.Uint64(b[:]))
		}
		for pos := i - 1; pos <= end && pos < len(l); pos++ {
			if pos < 0 {
				continue
			}
			if tw, ok := twins[val.Canon(l[pos], val.List)]; ok {
				l[pos] = tw
				nd, ok := gen.SetAt(doc, steps, l)
				return nd, "hash-twin", ok
			}
		}
	}
	switch gen.Int(t, "nearOp", 0, 13) {
	case 12:
		// the element two before the edit: outside one-line context, the
		// outer line of two-line context
		how = "change-before-2"
		if !set(i - 2) {
			how = "prepend"
			l = append([]val.V{freshScalar(t)}, l...)
		}
	case 13:
		how = "change-after-2"
		if !set(end + 1) {
			how = "append"
			l = append(l, freshScalar(t))
		}
	case 10, 11:
		// the array replaced by an object (or null) that mimics it
		how = "array-becomes-object"
		var repl val.V
		if gen.Chance(t, "null", 25) {
			repl, how = nil, "array-becomes-null"
		} else {
			o := map[string]val.V{}
			for k, e := range l {
				o[fmt.Sprint(k)] = e
			}
			repl = o
		}
		nd, ok := gen.SetAt(doc, steps, repl)
		return nd, how, ok
	case 0:
		how = "change-before"
		if !set(i - 1) {
			l = append([]val.V{freshScalar(t)}, l...)
			how = "prepend"
		}
	case 1:
		how = "change-after"
		if !set(end) {
			l = append(l, freshScalar(t))
			how = "append"
		}
	case 2:
		how = "change-removed"
		if !set(i) {
			how = "append"
			l = append(l, freshScalar(t))
		}
	case 3:
		how = "prepend"
		l = append([]val.V{freshScalar(t)}, l...)
	case 4:
		how = "drop-first"
		if len(l) > 0 {
			l = l[1:]
		}
	case 5:
		how = "truncate-at-index"
		if i >= 0 && i <= len(l) {
			l = l[:i]
		}
	case 6:
		how = "append"
		l = append(l, freshScalar(t))
	case 7:
		how = "insert-after-run"
		if end >= 0 && end <= len(l) {
			l = append(append(append([]val.V{}, l[:end]...), freshScalar(t)), l[end:]...)
		}
	case 8:
		how = "drop-last"
		if len(l) > 0 {
			l = l[:len(l)-1]
		}
	default:
		how = "duplicate-before"
		if i-1 >= 0 && i-1 < len(l) {
			l = append(append(append([]val.V{}, l[:i]...), val.Clone(l[i-1])), l[i:]...)
		}
	}
	nd, ok := gen.SetAt(doc, steps, l)
	return nd, how, ok
}

// drawTarget draws the document the hunks are applied to.
func drawTarget(t *rapid.T, av, bv val.V, hs []ref.Hunk, p gen.Profile) (val.V, string) {
	r := gen.Int(t, "targetKind", 0, 99)
	switch {
	case r < 12:
		return val.Clone(av), "a"
	case r < 16:
		return val.Clone(bv), "b"
	case r < 26 && len(hs) > 0:
		k := gen.Int(t, "prefix", 1, len(hs))
		if res, err := ref.ApplyAll(av, hs[:k]); err == nil {
			return res, "prefix-applied"
		}
		return val.Clone(av), "a"
	case r < 45:
		if val.IsVoid(av) {
			return gen.Doc(t, p), "independent"
		}
		return gen.Edit(t, av, p), "edit(a)"
	case r < 52 && len(hs) > 0:
		// an array somewhere on the path of a hunk cut to exactly the index the
		// path goes through (or one more, one less)
		h := gen.Pick(t, "pathHunk", hs)
		var at []int
		for i, e := range h.Path {
			if e.Kind == ref.Index {
				at = append(at, i)
			}
		}
		if len(at) > 0 {
			k := gen.Pick(t, "pathIndexAt", at)
			n := h.Path[k].Index + gen.Pick(t, "cutDelta", []int{0, 0, 1, -1})
			if nd, ok := rewriteAt(val.Clone(av), h.Path[:k], func(v val.V) val.V {
				l, isArr := v.([]val.V)
				if !isArr || n < 0 || n > len(l) {
					return v
				}
				return append([]val.V{}, l[:n]...)
			}); ok {
				return nd, "cut-array-on-path"
			}
		}
		return val.Clone(av), "a"
	default:
		var listHunks []ref.Hunk
		for _, h := range hs {
			if len(h.Path) > 0 && h.Path[len(h.Path)-1].Kind == ref.Index {
				listHunks = append(listHunks, h)
			}
		}
		if len(listHunks) == 0 || val.IsVoid(av) {
			if val.IsVoid(av) {
				return gen.Doc(t, p), "independent"
			}
			return gen.Edit(t, av, p), "edit(a)"
		}
		h := gen.Pick(t, "nearHunk", listHunks)
		base := val.Clone(av)
		nd, how, ok := perturbNear(t, base, h)
		if !ok {
			return gen.Edit(t, av, p), "edit(a)"
		}
		return nd, "near:" + how
	}
}

func genC03(t *rapid.T) TargetCase {
	c := genC03base(t)
	c.Text = gen.Chance(t, "throughText", 50)
	c.Widen = gen.Chance(t, "widen", 12)
	return c
}

// hugeContextCase: a list whose elements next to the edit are longer than
// 1 MiB when rendered on one line.
func hugeContextCase(t *rapid.T) TargetCase {
	big := strings.Repeat("c", 1100000)
	a := []val.V{1.0, big + "1", 2.0, big + "2", 3.0}
	b := []val.V{1.0, big + "1", 9.0, big + "2", 3.0}
	c := []val.V{1.0, big + "1", 2.0, big + "X", 3.0}
	if gen.Chance(t, "before", 50) {
		c = []val.V{1.0, big + "X", 2.0, big + "2", 3.0}
	}
	if gen.Chance(t, "matching", 30) {
		c = a
	}
	return TargetCase{A: val.JSON(a), B: val.JSON(b), Opts: "list", C: val.JSON(c), How: "huge-context", Text: true}
}

func genC03base(t *rapid.T) TargetCase {
	if gen.Chance(t, "hugeContext", 1) && gen.Chance(t, "hugeContext2", 25) {
		return hugeContextCase(t)
	}
	p := gen.Profile{ArrayBias: 60, MaxArr: 7}
	if gen.Chance(t, "nasty", 10) {
		p.NastyKeys = true
	}
	a := gen.Doc(t, p)
	var b val.V
	if gen.Chance(t, "independent", 10) {
		b = gen.Doc(t, p)
	} else {
		b = gen.Edit(t, a, p)
	}
	if gen.Chance(t, "deep", 15) {
		a, b = gen.DeepPair(t, a, b, p)
	}
	c := TargetCase{A: val.JSON(a), B: val.JSON(b), Opts: "list"}
	d, _, panicked := jdx.DiffSafe(jdx.Node(a), jdx.Node(b), nil)
	var hs []ref.Hunk
	if !panicked {
		hs, _ = jdx.ToHunks(d)
	}
	c.Keep = drawKeep(t, len(hs))
	_, sh := subDiff(make(jd.Diff, len(hs)), hs, c.Keep)
	tv, how := drawTarget(t, a, b, sh, p)
	c.C, c.How = val.JSON(tv), how
	return c
}

func TestC03Random(t *testing.T) {
	RunRandom(t, "C03", "random", genC03, checkC03)
}
