package props

import (
	"fmt"
	"path/filepath"
	"strings"
	"testing"
	"unicode"

	jd "github.com/josephburnett/jd/v2"
	"pgregory.net/rapid"

	"verifjd/gen"
	"verifjd/jdx"
	"verifjd/rec"
	"verifjd/ref"
	"verifjd/val"
)

// C16 — JSON and YAML are interchangeable carriers of a document.

// yamlPool: strings aimed at YAML's resolver and syntax.
var yamlPool = []string{
	"true", "True", "TRUE", "false", "yes", "Yes", "no", "on", "off", "y", "n", "Y", "N", "~", "null", "Null", "NULL", "",
	"1", "01", "0x1F", "0o17", "017", "0b11", "1e3", "1E3", ".5", "5.", "+1", "-1", "1_000", ".inf", "-.inf", ".Inf", ".nan", ".NaN", "1:20", "190:20:30",
	"2001-12-14", "2001-12-14t21:59:43.10-05:00", "2002-12-14", "- x", "-", "- ", "a: b", "a:", ": a", "a #b", "#", "# c", "|", ">", "|-", ">+",
	"&a", "*a", "!t", "!!str x", "%", "%YAML", "@", "`", "'", "''", "\"", "\"\"", "'a'", "\"a\"", "[", "]", "{", "}", "[]", "{}", "[a]", "{a: b}", ",", "a,b",
	"---", "...", "--- a", "?", "? a", " a", "a ", " ", "  ", "\t", "\ta", "a\t", "\n", "a\n", "\na", "a\nb", "a\n\nb", "a\r\nb", "\r", "a\rb",
	"//", "a // b", "/* c */", "a /* b */ c", "C:\\", "x\\", "*/", "\u00e9", "\u65e5\u672c\u8a9e", "\U0001F600", "\x00", "\x01", "\x1f", "\x7f", "\u0080", "\u0085", "\u009f", "\u00a0", "\u2028", "\u2029", "\ufeff", "\ufeffa", "\ufffd",
	"C:\\U0001F600", "\\U0001F600", "\\u00e9", "\\x41", "rate - 1e+06", "x: 3e+21\ny", "- 4e+06", "a\n- 1e+06", "k: 1e+06", "1e+06", "v: 1.0e+06", "a: 1\nb:\n- 2\n- x\n", "- a\n- - b\n", "\"q\": \"r\"\n",
	"<<", "=", "<", ">>", "key: [unclosed", "line1\n  indented\nline3", strings.Repeat("long ", 30), "\\", "\\n", "a\\", "\"a\\\"", "\u00e9: \u00fc",
}

var c16Numbers = []float64{0, 1, -1, 0.5, -0.5, 1e21, 1e-7, 9007199254740993, 9223372036854775808, 18446744073709551616, 1e300, 1.7976931348623157e308, 5e-324, 123456789.125, 0.1, 100, 1e15, 1e16, 12345678901234567890}

func c16Value(t *rapid.T, depth int) val.V {
	r := gen.Int(t, "c16kind", 0, 99)
	switch {
	case depth < 3 && r < 18:
		n := gen.Int(t, "arrLen", 0, 4)
		out := make([]val.V, n)
		for i := range out {
			if i > 0 && gen.Chance(t, "repeat", 25) {
				out[i] = val.Clone(out[gen.Int(t, "repeatOf", 0, i-1)])
				continue
			}
			out[i] = c16Value(t, depth+1)
		}
		return out
	case depth < 3 && r < 40:
		n := gen.Int(t, "objLen", 0, 4)
		out := map[string]val.V{}
		for i := 0; i < n; i++ {
			out[c16Key(t)] = c16Value(t, depth+1)
		}
		return out
	case r < 70:
		return gen.Pick(t, "poolStr", yamlPool)
	case r < 82:
		return gen.Pick(t, "num", c16Numbers)
	case r < 87:
		return gen.Chance(t, "bool", 50)
	case r < 91:
		return nil
	case r < 94:
		// concatenations reach combinations the pool does not list
		return gen.Pick(t, "p1", yamlPool) + gen.Pick(t, "p2", yamlPool)
	case r < 96:
		// the YAML text of another document as a string value
		inner := []val.V{gen.Pick(t, "in1", c16Numbers), map[string]val.V{gen.Pick(t, "ink", yamlPool): gen.Pick(t, "in2", c16Numbers)}, gen.Pick(t, "in3", yamlPool)}
		if gen.Chance(t, "jdYaml", 50) {
			var out string
			jdx.Guard(func() { out = jdx.Node(inner).Yaml() })
			if out != "" {
				return out
			}
		}
		return ref.YAMLEmit(inner)
	default:
		if gen.Chance(t, "bigString", 10) {
			if s, ok := gen.BigValue(t).(string); ok {
				return s
			}
			return strings.Repeat("word ", 400)
		}
		return gen.Pick(t, "plain", []string{"a", "b", "hello world", "x1"})
	}
}

func c16Key(t *rapid.T) string {
	if gen.Chance(t, "poolKey", 60) {
		return gen.Pick(t, "poolKeyStr", yamlPool)
	}
	return gen.Pick(t, "plainKey", []string{"a", "b", "c", "key"})
}

func c16Doc(t *rapid.T) val.V {
	if gen.Chance(t, "scalarRoot", 12) {
		return c16Value(t, 3)
	}
	if gen.Chance(t, "arrayRoot", 35) {
		n := gen.Int(t, "n", 0, 5)
		out := make([]val.V, n)
		for i := range out {
			if i > 0 && gen.Chance(t, "repeat", 25) {
				out[i] = val.Clone(out[gen.Int(t, "repeatOf", 0, i-1)])
				continue
			}
			out[i] = c16Value(t, 1)
		}
		return out
	}
	n := gen.Int(t, "n", 0, 5)
	out := map[string]val.V{}
	for i := 0; i < n; i++ {
		out[c16Key(t)] = c16Value(t, 1)
	}
	return out
}

// known findings of this property, by the input class they need
func c16Known(v val.V) string {
	id := ""
	var walk func(v val.V, root bool)
	walk = func(v val.V, root bool) {
		switch x := v.(type) {
		case string:
			if root && x != "" && strings.TrimSpace(x) == "" {
				ascii := true
				for _, r := range x {
					if r > unicode.MaxASCII {
						ascii = false
					}
				}
				if !ascii {
					id = "D19"
				}
			}
		case []val.V:
			for _, e := range x {
				walk(e, false)
			}
		case map[string]val.V:
			for k, e := range x {
				if k == "<<" {
					id = "D18"
				}
				walk(e, false)
			}
		}
	}
	walk(v, true)
	return id
}

type DocCase struct {
	Doc string `json:"doc"`
}

func usesPool(v val.V) bool {
	inPool := map[string]bool{}
	for _, s := range yamlPool {
		inPool[s] = true
	}
	found := false
	var walk func(v val.V)
	walk = func(v val.V) {
		switch x := v.(type) {
		case string:
			if inPool[x] || len(x) > 0 && !isPlainWord(x) {
				found = true
			}
		case float64:
			if x != float64(int64(x)) || x > 1e15 || x < -1e15 {
				found = true
			}
		case []val.V:
			for _, e := range x {
				walk(e)
			}
		case map[string]val.V:
			for k, e := range x {
				if inPool[k] {
					found = true
				}
				walk(e)
			}
		}
	}
	walk(v)
	return found
}

func isPlainWord(s string) bool {
	for _, r := range s {
		if !(r >= 'a' && r <= 'z' || r >= 'A' && r <= 'Z' || r >= '0' && r <= '9' || r == ' ') {
			return false
		}
	}
	return true
}

func sameDoc(n jd.JsonNode, want val.V, what string) error {
	got, err := val.Parse(n.Json())
	if err != nil {
		return rec.Violated("%s: Json() of the result is unreadable: %v", what, err)
	}
	if !val.Equal(got, want, val.List) {
		return rec.Violated("%s: got %s, want %s", what, showText(val.JSON(got)), showText(val.JSON(want)))
	}
	return nil
}

func checkC16(c DocCase, r *rec.Rec) error {
	v, err := val.Parse(c.Doc)
	if err != nil {
		return fmt.Errorf("bad case: %v", err)
	}
	viol := func(e error) error { return e }
	id := c16Known(v)
	if id == "D18" {
		viol = func(e error) error { return rec.Known(id, "%s", e.Error()) }
	}
	// D19 is the listed finding only in the form it was found in: jd's YAML
	// for the blank root string reads back as the empty document.
	violVoid := func(got jd.JsonNode, e error) error {
		if id == "D19" && got != nil && got.Json() == "" {
			return rec.Known(id, "%s", e.Error())
		}
		return viol(e)
	}
	jsonText := val.JSON(v)
	var n jd.JsonNode
	var rerr error
	if msg, p := jdx.Guard(func() { n, rerr = jd.ReadJsonString(jsonText) }); p {
		return rec.Violated("ReadJsonString panicked: %s", msg)
	}
	if rerr != nil {
		return rec.Violated("ReadJsonString rejects %s: %v", jsonText, rerr)
	}
	if err := sameDoc(n, v, "ReadJsonString("+jsonText+")"); err != nil {
		return viol(err)
	}
	// JSON write/read
	var n2 jd.JsonNode
	js := n.Json()
	n2, rerr = jd.ReadJsonString(js)
	if rerr != nil {
		return viol(rec.Violated("jd cannot read its own JSON %s: %v", js, rerr))
	}
	if !n2.Equals(n) || !n.Equals(n2) {
		return viol(rec.Violated("JSON round trip of %s is not Equal: %s", jsonText, n2.Json()))
	}
	// YAML write/read
	var ys string
	if msg, p := jdx.Guard(func() { ys = n.Yaml() }); p {
		return viol(rec.Violated("Yaml() panicked on %s: %s", jsonText, msg))
	}
	var n3 jd.JsonNode
	if msg, p := jdx.Guard(func() { n3, rerr = jd.ReadYamlString(ys) }); p {
		return viol(rec.Violated("ReadYamlString panicked on jd's own YAML: %s\n%s", msg, ys))
	}
	if rerr != nil {
		return viol(rec.Violated("jd cannot read its own YAML for %s: %v\nyaml:\n%s", jsonText, rerr, ys))
	}
	if !n3.Equals(n) || !n.Equals(n3) {
		return violVoid(n3, rec.Violated("YAML round trip of %s gives %s\nyaml:\n%s", jsonText, showText(n3.Json()), ys))
	}
	if err := sameDoc(n3, v, "YAML round trip of "+jsonText); err != nil {
		return viol(err)
	}
	// rendering under an array reading and reading back keeps the value under that reading
	for _, rd := range []struct {
		name string
		opt  jd.Option
	}{{"SET", jd.SET}, {"MULTISET", jd.MULTISET}} {
		var ys2, js2 string
		if msg, p := jdx.Guard(func() { ys2, js2 = n.Yaml(rd.opt), n.Json(rd.opt) }); p {
			return viol(rec.Violated("rendering %s with %s panicked: %s", jsonText, rd.name, msg))
		}
		ny, err := jd.ReadYamlString(ys2)
		if err != nil {
			return viol(rec.Violated("jd cannot read its own YAML(%s) for %s: %v\nyaml:\n%s", rd.name, jsonText, err, ys2))
		}
		if !ny.Equals(n, rd.opt) || !n.Equals(ny, rd.opt) {
			return violVoid(ny, rec.Violated("YAML(%s) round trip of %s gives %s, not equal under %s\nyaml:\n%s", rd.name, jsonText, showText(ny.Json()), rd.name, ys2))
		}
		nj, err := jd.ReadJsonString(js2)
		if err != nil {
			return viol(rec.Violated("jd cannot read its own JSON(%s) for %s: %v", rd.name, jsonText, err))
		}
		if !nj.Equals(n, rd.opt) || !n.Equals(nj, rd.opt) {
			return viol(rec.Violated("JSON(%s) round trip of %s gives %s, not equal under %s", rd.name, jsonText, showText(nj.Json()), rd.name))
		}
	}
	// the file entry points read what the string entry points read (one case in sixteen)
	if val.FNV64(jsonText)%16 == 0 {
		dir, cleanup := caseDir()
		writeFile(dir, "doc.json", jsonText)
		writeFile(dir, "doc.yaml", ys)
		var nf, yf jd.JsonNode
		var ferr, yerr error
		msg, p := jdx.Guard(func() {
			nf, ferr = jd.ReadJsonFile(filepath.Join(dir, "doc.json"))
			yf, yerr = jd.ReadYamlFile(filepath.Join(dir, "doc.yaml"))
		})
		cleanup()
		if p {
			return viol(rec.Violated("ReadJsonFile / ReadYamlFile panicked on %s: %s", jsonText, msg))
		}
		if ferr != nil || yerr != nil {
			return viol(rec.Violated("ReadJsonFile (%v) / ReadYamlFile (%v) reject a file that holds what ReadJsonString / ReadYamlString accept: %s", ferr, yerr, jsonText))
		}
		if !nf.Equals(n) || !n.Equals(nf) || nf.Json() != n.Json() {
			return viol(rec.Violated("ReadJsonFile gives %s for a file holding %s", showText(nf.Json()), jsonText))
		}
		if !yf.Equals(n3) || !n3.Equals(yf) || yf.Json() != n3.Json() {
			return viol(rec.Violated("ReadYamlFile gives %s for a file holding\n%s", showText(yf.Json()), ys))
		}
	}
	// the same document from an independent YAML writer
	ye := ref.YAMLEmit(v)
	var n4 jd.JsonNode
	if msg, p := jdx.Guard(func() { n4, rerr = jd.ReadYamlString(ye) }); p {
		return viol(rec.Violated("ReadYamlString panicked: %s\n%s", msg, ye))
	}
	if rerr != nil {
		return viol(rec.Violated("ReadYamlString rejects the YAML form of %s: %v\nyaml:\n%s", jsonText, rerr, ye))
	}
	if !n4.Equals(n) || !n.Equals(n4) {
		return viol(rec.Violated("the document read from YAML is %s, read from JSON it is %s\nyaml:\n%s", showText(n4.Json()), jsonText, ye))
	}
	// the same YAML document with the decorations other writers add: a
	// document start marker, a document end marker, comment lines
	if !val.IsVoid(v) {
		body := strings.TrimSuffix(ye, "\n")
		decorated := []string{"---\n" + ye, ye + "...\n", "# written by a tool\n" + ye, ye + "# end\n", "%YAML 1.1\n---\n" + ye}
		_, isArr := v.([]val.V)
		_, isObj := v.(map[string]val.V)
		if !strings.Contains(body, "\n") && !isArr && !isObj { // a block collection cannot start on the marker line
			decorated = append(decorated, "--- "+body+"\n", body+" # note\n", "---\n"+body+"\n...\n")
		}
		for _, dy := range decorated {
			var n5 jd.JsonNode
			if msg, p := jdx.Guard(func() { n5, rerr = jd.ReadYamlString(dy) }); p {
				return viol(rec.Violated("ReadYamlString panicked: %s\n%s", msg, dy))
			}
			if rerr != nil {
				return viol(rec.Violated("ReadYamlString rejects a YAML form of %s: %v\nyaml:\n%s", jsonText, rerr, dy))
			}
			if !n5.Equals(n) || !n.Equals(n5) {
				return viol(rec.Violated("the document read from YAML is %s, read from JSON it is %s\nyaml:\n%s", showText(n5.Json()), jsonText, dy))
			}
		}
	}
	nontrivial := usesPool(v)
	cls := []string{"root=" + val.Kind(v)}
	r.Case(jsonText, nontrivial, cls...)
	if nontrivial {
		r.Sample(c)
	}
	return nil
}

func genC16(t *rapid.T) DocCase { return DocCase{Doc: val.JSON(c16Doc(t))} }

// ---- CLI leg: translations and -yaml diff/patch

type YamlCLICase struct {
	A   string `json:"a"`
	B   string `json:"b"`
	Bin string `json:"bin"`
}

func checkC16CLI(c YamlCLICase, r *rec.Rec) error {
	if !haveCLI() {
		return inconclusive{"jd binaries not built"}
	}
	av, err := val.Parse(c.A)
	if err != nil {
		return fmt.Errorf("bad case: %v", err)
	}
	bv, err := val.Parse(c.B)
	if err != nil {
		return fmt.Errorf("bad case: %v", err)
	}
	viol := func(f string, a ...interface{}) error { return rec.Violated(f, a...) }
	for _, v := range []val.V{av, bv} {
		if id := c16Known(v); id != "" {
			viol = func(f string, a ...interface{}) error { return rec.Known(id, f, a...) }
		}
	}
	dir, cleanup := caseDir()
	defer cleanup()
	writeFile(dir, "a.json", val.JSON(av))
	writeFile(dir, "b.json", val.JSON(bv))
	// json2yaml then yaml2json is the identity
	for _, name := range []string{"a", "b"} {
		// the -yaml flag says how diffed documents are read; a translation names both formats itself
		withYamlFlag := val.FNV64(c.A+"#"+c.B)%3 == 0
		tflags := func(tr string) []string {
			if withYamlFlag {
				return []string{"-yaml", "-t=" + tr}
			}
			return []string{"-t=" + tr}
		}
		res := runCLI(c.Bin, append(tflags("json2yaml"), "-o="+name+".yaml", name+".json"), nil, dir)
		if err := cliTrouble(res); err != nil {
			return err
		}
		if res.Status != 0 {
			return viol("%s -t=json2yaml %s.json exits %d: %s", c.Bin, name, res.Status, res.Stderr)
		}
		res = runCLI(c.Bin, append(tflags("yaml2json"), name+".yaml"), nil, dir)
		if err := cliTrouble(res); err != nil {
			return err
		}
		if res.Status != 0 {
			return viol("%s -t=yaml2json of its own YAML exits %d: %s", c.Bin, res.Status, res.Stderr)
		}
		back, err := val.Parse(res.Stdout)
		want := av
		if name == "b" {
			want = bv
		}
		if err != nil || !val.Equal(back, want, val.List) {
			return viol("%s: json2yaml | yaml2json turns %s into %s", c.Bin, val.JSON(want), showText(res.Stdout))
		}
	}
	// -yaml diff and -p -yaml reproduce b
	// the name of the diff file says nothing about the documents: it varies with the case
	dname := []string{"d.jd", "d.json", "d", "d.txt", "d.yaml", "d.yml"}[val.FNV64(c.A+"|"+c.B)%6]
	res := runCLI(c.Bin, []string{"-yaml", "-o=" + dname, "a.yaml", "b.yaml"}, nil, dir)
	if err := cliTrouble(res); err != nil {
		return err
	}
	if res.Status != 0 && res.Status != 1 {
		return viol("%s -yaml a.yaml b.yaml exits %d: %s", c.Bin, res.Status, res.Stderr)
	}
	equal := val.Equal(av, bv, val.List)
	if (res.Status == 0) != equal {
		return viol("%s -yaml exits %d but the documents are equal=%v (a=%s b=%s)", c.Bin, res.Status, equal, c.A, c.B)
	}
	res = runCLI(c.Bin, []string{"-yaml", "-p", dname, "a.yaml"}, nil, dir)
	if err := cliTrouble(res); err != nil {
		return err
	}
	if res.Status != 0 {
		return viol("%s -yaml -p of its own diff exits %d: %s", c.Bin, res.Status, res.Stderr)
	}
	// the patched YAML, read back, is b
	writeFile(dir, "p.yaml", res.Stdout)
	res2 := runCLI(c.Bin, []string{"-t=yaml2json", "p.yaml"}, nil, dir)
	if err := cliTrouble(res2); err != nil {
		return err
	}
	back, err := val.Parse(res2.Stdout)
	if res2.Status != 0 || err != nil || !val.Equal(back, bv, val.List) {
		return viol("%s: -yaml diff then -p -yaml gives %s, want b = %s\npatched yaml:\n%s", c.Bin, showText(res2.Stdout), c.B, res.Stdout)
	}
	nontrivial := usesPool(av) || usesPool(bv)
	r.Case(c.A+"|"+c.B+"|"+c.Bin, nontrivial, "bin="+c.Bin)
	if nontrivial {
		r.Sample(c)
	}
	return nil
}

func genC16CLI(t *rapid.T) YamlCLICase {
	a := c16Doc(t)
	var b val.V
	if gen.Chance(t, "independent", 50) {
		b = c16Doc(t)
	} else {
		b = gen.Edit(t, a, gen.Profile{Payload: true})
	}
	// the void document cannot be produced by json2yaml from a JSON file
	return YamlCLICase{A: val.JSON(a), B: val.JSON(b), Bin: gen.Pick(t, "bin", []string{"jd-v2", "jd-top"})}
}

func init() {
	Register("C16", "library", checkC16)
	Register("C16", "pool", checkC16)
	Register("C16", "cli", checkC16CLI)
}

func TestC16Library(t *testing.T) { RunRandom(t, "C16", "library", genC16, checkC16) }
func TestC16CLI(t *testing.T)     { RunRandom(t, "C16", "cli", genC16CLI, checkC16CLI) }

// Every pool string as a root scalar, as a value, as a key and as an element.
func TestC16Pool(t *testing.T) {
	e := NewEnum(t, "C16", "pool", checkC16)
	defer e.Done()
	e.r.Notes["pool"] = len(yamlPool)
	for _, s := range yamlPool {
		if !e.Mine() {
			continue
		}
		e.Do(DocCase{Doc: val.JSON(s)})
		e.Do(DocCase{Doc: val.JSON([]val.V{s})})
		e.Do(DocCase{Doc: val.JSON(map[string]val.V{"k": s})})
		e.Do(DocCase{Doc: val.JSON(map[string]val.V{s: 1.0})})
		e.Do(DocCase{Doc: val.JSON(map[string]val.V{s: s})})
		e.Do(DocCase{Doc: val.JSON([]val.V{[]val.V{s, map[string]val.V{s: []val.V{s}}}})})
	}
	for _, f := range c16Numbers {
		e.Do(DocCase{Doc: val.JSON(f)})
		e.Do(DocCase{Doc: val.JSON([]val.V{f, -f})})
		e.Do(DocCase{Doc: val.JSON(map[string]val.V{"n": f})})
	}
}
