#!/bin/bash
# tools/eval_all.sh C03 C04 ...   evaluates every delivered mutant of the listed properties
mkdir -p /tmp/mut-results
for P in "$@"; do
  for M in /tmp/mut-$P-out/m*; do
    [ -f $M/patch.diff ] || continue
    N=$(basename $M)
    [ -f /tmp/mut-results/$P-$N.json ] && continue
    python3 /verif/tools/eval_mutant.py $M /tmp/mut-$P --seeds 1 > /tmp/mut-results/$P-$N.json 2>&1
    python3 - <<PY
import json
try:
    r=json.load(open('/tmp/mut-results/$P-$N.json'))
    print('$P-$N', 'demo clean/mutant rc', r.get('demo_clean_rc'), r.get('demo_mutant_rc'), 'suite', r.get('suite_rc'), {k:(v['rc'],v['violations']) for k,v in r['checks'].items()})
except Exception as e:
    print('$P-$N', 'ERR', e)
PY
  done
done
