#!/usr/bin/env python3
"""Mutation sweep: single-token mutations of jd's non-test sources in a scratch worktree, filtered by jd's
own suite, then judged by the quick checks of the properties anchored in the mutated file.

  tools/sweep.py gen  <worktree> <outdir> [--max N] [--seed S]     generate mutants, keep the survivors of the suite
  tools/sweep.py judge <worktree> <outdir> [--limit N]             run the checks against every survivor

Nothing is written to /repo; the checks build against the worktree through VERIF_REPO_OVERRIDE.
Results: <outdir>/survivors/<id>.diff, <outdir>/gen.json, <outdir>/judge.json
"""
import json, os, random, re, subprocess, sys, hashlib

ENV = dict(os.environ, GOFLAGS="-mod=mod", GOPROXY="off")

def sh(cmd, cwd, timeout=900, env=ENV):
    try:
        p = subprocess.run(cmd, shell=True, cwd=cwd, env=env, stdout=subprocess.PIPE, stderr=subprocess.STDOUT, text=True, timeout=timeout)
        return p.returncode, p.stdout
    except subprocess.TimeoutExpired:
        return 124, "timeout"

FILES = ["v2/list.go", "v2/set.go", "v2/multiset.go", "v2/object.go", "v2/patch_common.go", "v2/diff_read.go", "v2/diff_write.go",
         "v2/pointer.go", "v2/path.go", "v2/number.go", "v2/string.go", "v2/array.go", "v2/hash_common.go", "v2/node_read.go",
         "v2/node_write.go", "v2/options.go", "v2/metadata.go", "v2/void.go", "v2/null.go", "v2/bool.go", "v2/diff_common.go",
         "v2/jd/main.go", "main.go", "lib/list.go", "lib/set.go", "lib/multiset.go", "lib/object.go", "lib/diff_read.go",
         "lib/diff_write.go", "lib/pointer.go", "lib/path.go", "lib/patch_common.go"]

OPS = [
    (r"==", "!="), (r"!=", "=="), (r"<=", "<"), (r">=", ">"), (r"(?<![<-])<(?![=<-])", "<="), (r"(?<![>-])>(?![=>])", ">="),
    (r"&&", "||"), (r"\|\|", "&&"), (r"\+ 1\b", "- 1"), (r"- 1\b", "+ 1"), (r"\+ 1\b", ""), (r"- 1\b", ""),
    (r"\btrue\b", "false"), (r"\bfalse\b", "true"), (r"\bcontinue\b", "break"), (r"\bbreak\b", "continue"),
    (r"len\((\w+)\) == 0", r"len(\1) <= 1"), (r"len\((\w+)\) > 0", r"len(\1) > 1"), (r"\[0\]", "[1]"), (r"\[:1\]", "[:0]"),
    (r"if !", "if "), (r"\.clone\(\)", ""),
]

def candidates(wt):
    out = []
    for f in FILES:
        path = os.path.join(wt, f)
        if not os.path.exists(path):
            continue
        lines = open(path).read().split("\n")
        in_block = False
        for ln, line in enumerate(lines):
            code = line.split("//")[0]
            s = code.strip()
            if not s or s.startswith("import") or s.startswith("package") or '"' in code and s.startswith('"'):
                continue
            if "errorf" in code.lower() or "fmt.Errorf" in code or "flag." in code or "`" in code:
                continue
            for oi, (pat, rep) in enumerate(OPS):
                for m in re.finditer(pat, code):
                    # do not mutate inside string literals (rough: count quotes before the match)
                    if code[:m.start()].count('"') % 2 == 1:
                        continue
                    new = code[:m.start()] + m.expand(rep) + code[m.end():] + line[len(code):]
                    if new != line:
                        out.append((f, ln, oi, m.start(), new))
    return out

def suite(wt, f):
    if f.startswith("v2/"):
        rc, out = sh("go test -count=1 -vet=off . ./jd/", os.path.join(wt, "v2"), 300)
        return rc
    rc1, _ = sh("go test -count=1 -vet=off ./...", wt, 300)
    return rc1

def gen(wt, outdir, maxn, seed, skip=0):
    os.makedirs(os.path.join(outdir, "survivors"), exist_ok=True)
    sh("git checkout -q -- . && git clean -fdq", wt)
    cands = candidates(wt)
    random.Random(seed).shuffle(cands)
    cands = cands[skip:]
    res = {"candidates": len(cands), "tried": 0, "build_fail": 0, "killed": 0, "survived": 0, "list": []}
    for (f, ln, oi, col, new) in cands:
        if res["tried"] >= maxn:
            break
        path = os.path.join(wt, f)
        orig = open(path).read()
        lines = orig.split("\n")
        lines[ln] = new
        open(path, "w").write("\n".join(lines))
        res["tried"] += 1
        pkg = "./..." if not f.startswith("v2/") else ". ./jd/"
        cwd = os.path.join(wt, "v2") if f.startswith("v2/") else wt
        rc, out = sh("go vet -vet=off %s 2>&1 >/dev/null; go build %s" % ("", "./... 2>/dev/null || go build . ./jd/" if f.startswith("v2/") else "./..."), cwd, 120)
        rc, out = sh("go build %s" % (". ./jd/" if f.startswith("v2/") else ". ./lib/"), cwd, 120)
        if rc != 0:
            res["build_fail"] += 1
            open(path, "w").write(orig)
            continue
        rc = suite(wt, f)
        if rc != 0:
            res["killed"] += 1
            open(path, "w").write(orig)
            continue
        mid = "%s-%d-%d-%d" % (f.replace("/", "_").replace(".go", ""), ln + 1, oi, col)
        rcd, diff = sh("git diff", wt)
        open(os.path.join(outdir, "survivors", mid + ".diff"), "w").write(diff)
        res["survived"] += 1
        res["list"].append({"id": mid, "file": f, "line": ln + 1, "op": OPS[oi][0] + " -> " + OPS[oi][1], "new": new.strip()})
        open(path, "w").write(orig)
        json.dump(res, open(os.path.join(outdir, "gen.json"), "w"), indent=1)
    json.dump(res, open(os.path.join(outdir, "gen.json"), "w"), indent=1)
    print(json.dumps({k: v for k, v in res.items() if k != "list"}))

def props_for(f):
    m = {}
    for l in open("/verif/properties.jsonl"):
        d = json.loads(l)
        for af in d["anchors"]["files"]:
            m.setdefault(af, []).append(d["id"])
    ps = list(m.get(f, []))
    # files that every library property passes through
    if f in ("v2/hash_common.go", "v2/array.go", "v2/options.go", "v2/number.go", "v2/string.go", "v2/bool.go", "v2/null.go", "v2/void.go", "v2/diff_common.go", "v2/node_read.go", "v2/node_write.go"):
        ps += ["C01", "C04", "C05", "C16", "C02", "C13"]
    if f == "v2/jd/main.go" or f == "main.go":
        ps += ["C14", "C05", "C13", "C12", "C16", "C17"]
    if f.startswith("lib/"):
        ps += ["C17", "C18", "C14"]
    if f.startswith("v2/") and not ps:
        ps = ["C01", "C02", "C03", "C05"]
    seen, out = set(), []
    for p in ps + ["C01", "C02", "C03", "C08", "C13"]:
        if p not in seen:
            seen.add(p); out.append(p)
    return out[:6]

def judge(wt, outdir, limit):
    g = json.load(open(os.path.join(outdir, "gen.json")))
    jpath = os.path.join(outdir, "judge.json")
    done = json.load(open(jpath)) if os.path.exists(jpath) else {}
    n = 0
    for ent in g["list"]:
        if ent["id"] in done:
            continue
        if n >= limit:
            break
        n += 1
        sh("git checkout -q -- . && git clean -fdq", wt)
        rc, out = sh("git apply %s" % os.path.join(outdir, "survivors", ent["id"] + ".diff"), wt)
        if rc != 0:
            done[ent["id"]] = {"applies": False}
            continue
        verdict = {"killed_by": None, "ran": []}
        for p in props_for(ent["file"]):
            e = dict(os.environ, VERIF_REPO_OVERRIDE=wt, VERIF_SEED="1")
            rc, out = sh("./check %s quick" % p, "/verif", 1800, e)
            verdict["ran"].append([p, rc])
            if rc == 1 and "VIOLATION" in out:
                verdict["killed_by"] = p
                verdict["first"] = out.split("VIOLATION", 1)[1][:400]
                break
        sh("rm -rf /verif/replays", "/verif")
        done[ent["id"]] = dict(ent, **verdict)
        json.dump(done, open(jpath, "w"), indent=1)
        print(ent["id"], "->", verdict["killed_by"], flush=True)
    sh("git checkout -q -- . && git clean -fdq", wt)

if __name__ == "__main__":
    mode, wt, outdir = sys.argv[1], os.path.abspath(sys.argv[2]), os.path.abspath(sys.argv[3])
    a = sys.argv[4:]
    def opt(name, default):
        return int(a[a.index(name) + 1]) if name in a else default
    if mode == "gen":
        gen(wt, outdir, opt("--max", 300), opt("--seed", 1), opt("--skip", 0))
    else:
        judge(wt, outdir, opt("--limit", 1000))
