#!/usr/bin/env python3
"""For every kept seeded change: apply it to /repo (git apply), run the property's check, undo it
(git checkout -- .), and record the outcome in seeded/<id>/meta.json under "repo_run".
usage: tools/matrix_repo.py [--seed N] [--tier quick] [ids...]"""
import glob, json, os, subprocess, sys
seed, tier, ids = "2", "quick", []
a = sys.argv[1:]
i = 0
while i < len(a):
    if a[i] == "--seed": seed = a[i+1]; i += 2
    elif a[i] == "--tier": tier = a[i+1]; i += 2
    else: ids.append(a[i]); i += 1
def sh(cmd, cwd=None, env=None):
    p = subprocess.run(cmd, shell=True, cwd=cwd, env=env, stdout=subprocess.PIPE, stderr=subprocess.STDOUT, text=True)
    return p.returncode, p.stdout
rc, out = sh("git status --short", "/repo")
if out.strip():
    print("REFUSING: /repo not clean"); sys.exit(3)
rc, out = sh("pgrep -af '[.]/check C[0-9]+ thorough'")
if out.strip():
    # a thorough run builds from /repo at the start of every property: patching /repo now would contaminate it
    print("REFUSING: a thorough run is in progress:\n" + out); sys.exit(3)
for d in sorted(glob.glob("/verif/seeded/*")):
    mid = os.path.basename(d)
    if ids and mid not in ids: continue
    meta = json.load(open(os.path.join(d, "meta.json")))
    rc, out = sh("git apply --check %s/patch.diff" % d, "/repo")
    if rc != 0:
        meta["repo_run"] = {"applies": False, "detail": out[-300:]}
        json.dump(meta, open(os.path.join(d, "meta.json"), "w"), indent=1)
        print(mid, "patch does not apply to the current tree"); continue
    sh("git apply %s/patch.diff" % d, "/repo")
    try:
        e = dict(os.environ); e["VERIF_SEED"] = seed
        rc, out = sh("./check %s %s" % (meta["property"], tier), "/verif", e)
    finally:
        sh("git checkout -- . && git clean -fdq", "/repo")
        sh("rm -rf /verif/replays", "/verif")
    viol = [l for l in out.splitlines() if l.startswith("VIOLATION")]
    meta["repo_run"] = {"applies": True, "cmd": "git -C /repo apply seeded/%s/patch.diff; VERIF_SEED=%s ./check %s %s; git -C /repo checkout -- ." % (mid, seed, meta["property"], tier),
                        "exit": rc, "violations": len(viol), "first_violation": (out.split("VIOLATION", 1)[1][:400].strip() if viol else out[-200:].strip())}
    json.dump(meta, open(os.path.join(d, "meta.json"), "w"), indent=1)
    print(mid, "exit", rc, "violations", len(viol))
rc, out = sh("git status --short", "/repo")
print("repo clean after:", out.strip() == "")
