#!/usr/bin/env python3
"""Evaluate one seeded change against the checks.

  tools/eval_mutant.py <dir with patch.diff, demo_test.go, meta.json> <scratch worktree> [--props C01,C02] [--tier quick] [--seeds 1,2]

1. in the scratch worktree: clean tree -> demo passes; patch applied -> suite passes, demo fails
2. in /repo: apply the patch, run the listed checks, undo the patch
Prints one JSON summary line at the end.
"""
import json, os, subprocess, sys, shutil

def sh(cmd, cwd=None, env=None, timeout=3600):
    p = subprocess.run(cmd, shell=True, cwd=cwd, env=env, stdout=subprocess.PIPE, stderr=subprocess.STDOUT, text=True, timeout=timeout)
    return p.returncode, p.stdout

def main():
    mdir, wt = sys.argv[1], sys.argv[2]
    props, tier, seeds = None, "quick", [1]
    args = sys.argv[3:]
    for i, a in enumerate(args):
        if a == "--props": props = args[i+1].split(",")
        if a == "--tier": tier = args[i+1]
        if a == "--seeds": seeds = [int(x) for x in args[i+1].split(",")]
    meta = json.load(open(os.path.join(mdir, "meta.json")))
    if props is None: props = [meta["property"]]
    env = dict(os.environ); env["GOFLAGS"] = "-mod=mod"; env["GOPROXY"] = "off"
    patch = os.path.abspath(os.path.join(mdir, "patch.diff"))
    demo_src = os.path.join(mdir, "demo_test.go")
    if not os.path.exists(demo_src):
        demo_src = None
    dd = (meta.get("demo_dir") or "v2").split()[0].strip("/")
    if dd.startswith("tmp/") or dd.startswith("/"):
        dd = dd.split(os.path.basename(wt) + "/", 1)[-1]
    demo_dir = os.path.join(wt, dd)
    res = {"mutant": mdir, "property": meta["property"]}
    sh("git checkout -- . && git clean -fdq", cwd=wt)
    os.makedirs(demo_dir, exist_ok=True)
    demo_dst = os.path.join(demo_dir, "zz_demo_test.go")
    # clean tree: demo passes
    demo_run = "go test -count=1 -vet=off -run 'Demo|demo|Mutant|mutant|Seed|M1|M2' ."
    if demo_src:
        shutil.copyfile(demo_src, demo_dst)
        rc, out = sh(demo_run, cwd=demo_dir, env=env)
    else:
        rc, out = sh("bash %s %s" % (os.path.join(os.path.abspath(mdir), "demo.sh"), wt), cwd=wt, env=env)
    res["demo_clean_rc"] = rc
    res["demo_clean_ran"] = "no tests to run" not in out
    if rc: res["demo_clean_tail"] = out[-500:]
    # mutant: suite passes, demo fails
    rc, out = sh("git apply " + patch, cwd=wt)
    res["apply_rc"] = rc
    if demo_src:
        rc, out = sh(demo_run, cwd=demo_dir, env=env)
        os.remove(demo_dst)
    else:
        rc, out = sh("bash %s %s" % (os.path.join(os.path.abspath(mdir), "demo.sh"), wt), cwd=wt, env=env)
    res["demo_mutant_rc"] = rc
    res["demo_mutant_tail"] = out[-400:]
    rc1, out1 = sh("go test -count=1 -vet=off ./...", cwd=wt, env=env)
    rc2, out2 = sh("go test -count=1 -vet=off . ./jd/", cwd=os.path.join(wt, "v2"), env=env)
    res["suite_rc"] = [rc1, rc2]
    if rc1 or rc2: res["suite_tail"] = (out1 + out2)[-800:]
    # checks against the scratch worktree with the patch applied (VERIF_REPO_OVERRIDE; /repo is not touched)
    res["checks"] = {}
    try:
        for p in props:
            for s in seeds:
                e = dict(os.environ); e["VERIF_SEED"] = str(s); e["VERIF_REPO_OVERRIDE"] = wt
                rc, out = sh("./check %s %s" % (p, tier), cwd="/verif", env=e, timeout=7200)
                viol = [l for l in out.splitlines() if l.startswith("VIOLATION")]
                res["checks"]["%s@%d" % (p, s)] = {"rc": rc, "violations": len(viol), "first": (out.split("VIOLATION", 1)[1][:500] if viol else out[-300:])}
    finally:
        sh("git checkout -- . && git clean -fdq", cwd=wt)
        sh("rm -rf /verif/replays", cwd="/verif")
    print(json.dumps(res, indent=1))

main()
