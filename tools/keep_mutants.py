#!/usr/bin/env python3
"""Copies evaluated seeded changes from /tmp/mut-*-out into /verif/seeded/<id>/ with a meta.json that
records what the change needs and what was run to confirm it."""
import glob, json, os, shutil, sys

NOTES = {
    "C12-m1": "missed by the first version of the check (merge patch documents were at most 3 levels deep); caught after the deep-nesting generator (gen.DeepPair) was added",
    "C06-m1": "missed by the first version of the check (only an upper bound on removes for container arrays); caught after the positional recursion oracle (nothing in common => a[i] faces b[i]) was added",
    "C07-m1": "missed by the first version of the check (generator never produced -0); caught after zero-sign pairs and the D10 regression input were added to C07",
    "C10-m1": "missed by the first version of the check; caught after the duplicate-hunk variation was added",
    "C10-m2": "valid against the tree it was written for (844bf96); the later repair D28 (isArrayIndex guard in readPointer) makes the slip harmless, so on the current tree the demonstration passes with the change applied. Kept for the record; the strengthened check (float-looking keys, odd index tokens) was built because of it and found D28",
    "C14-m1": "missed by the first version of the check (-o always wrote into a fresh directory); caught after the output file is pre-filled with longer stale content",
    "C14-m2": "missed by the first version of the check (stdin was always a pipe); caught after a run with stdin redirected from a regular file was added",
}

os.makedirs("/verif/seeded", exist_ok=True)
for res in sorted(glob.glob("/tmp/mut-results/*.json")):
    mid = os.path.basename(res)[:-5]
    prop, m = mid.split("-")
    src = "/tmp/mut-%s-out/%s" % (prop, m)
    try:
        r = json.load(open(res))
        meta = json.load(open(os.path.join(src, "meta.json")))
    except Exception as e:
        print("skip", mid, e); continue
    dst = os.path.join("/verif/seeded", mid)
    os.makedirs(dst, exist_ok=True)
    shutil.copyfile(os.path.join(src, "patch.diff"), os.path.join(dst, "patch.diff"))
    for demo in ("demo_test.go", "demo.sh"):
        if os.path.exists(os.path.join(src, demo)):
            shutil.copyfile(os.path.join(src, demo), os.path.join(dst, demo))
    checks = {k: {"exit": v["rc"], "violations": v["violations"], "first_violation": v["first"].strip()[:400]} for k, v in r["checks"].items()}
    out = {
        "id": mid,
        "property": meta.get("property", prop),
        "summary": meta.get("summary"),
        "needs": meta.get("needs"),
        "files": meta.get("files"),
        "demo": {"dir": meta.get("demo_dir"), "cmd": meta.get("demo_cmd")},
        "confirmed_by_me": {
            "how": "tools/eval_mutant.py: demo on the clean scratch worktree, then patch applied: demo again, both modules' test suites (go test ./... ; v2: go test . ./jd/), then ./check <property> quick with VERIF_SEED=1 built against the patched worktree (VERIF_REPO_OVERRIDE); worktree reset afterwards",
            "demo_passes_clean": r.get("demo_clean_rc") == 0,
            "demo_fails_with_change": r.get("demo_mutant_rc") != 0,
            "existing_suite_passes_with_change": r.get("suite_rc") == [0, 0],
        },
        "checks_run": checks,
        "caught": any(v["rc"] == 1 for v in r["checks"].values()),
        "note": NOTES.get(mid, ""),
    }
    json.dump(out, open(os.path.join(dst, "meta.json"), "w"), indent=1)
    print(mid, "caught" if out["caught"] else "MISSED", out["confirmed_by_me"])
