#!/usr/bin/env python3
"""Copies evaluated seeded changes from /tmp/mut-*-out into /verif/seeded/<id>/ with a meta.json that
records what the change needs and what was run to confirm it."""
import glob, json, os, shutil, sys

NOTES = {
    "C12-m1": "missed by the first version of the check (merge patch documents were at most 3 levels deep); caught after the deep-nesting generator (gen.DeepPair) was added",
    "C06-m1": "missed by the first version of the check (only an upper bound on removes for container arrays); caught after the positional recursion oracle (nothing in common => a[i] faces b[i]) was added",
    "C07-m1": "missed by the first version of the check (generator never produced -0); caught after zero-sign pairs and the D10 regression input were added to C07",
    "C10-m1": "missed by the first version of the check; caught after the duplicate-hunk variation was added",
    "C10-m2": "valid against the tree it was written for (844bf96); the later repair D28 (isArrayIndex guard in readPointer) makes the slip harmless, so on the current tree the demonstration passes with the change applied. Kept for the record; the strengthened check (float-looking keys, odd index tokens) was built because of it and found D28",
    "C14-m1": "missed by the first version of the check (-o always wrote into a fresh directory); caught after the output file is pre-filled with longer stale content",
    "C01-m3": "missed by the first version of the check (no subnormal numbers in the value pool); caught after 5e-324, 1e-310, 2.5e-320 were added",
    "C01-m4": "missed by the first version of the check (no strings longer than 56 bytes with a common prefix); caught after the long-string pool and 'near' edits (same string, changed tail) were added",
    "C02-m4": "missed by the first version of the check (C02 did not run the binaries); caught after the C02 cli leg (jd a b, jd -p on the printed text, payload strings with %) was added; C14 catches it too",
    "C03-m4": "missed by the first version of the check; caught after the target perturbation 'array replaced by an object with the indices as keys (or by null)' was added",
    "C04-m4": "missed by the first version of the check; caught after near-twin pairs (adjacent float64 values, numbers agreeing to 15 digits) were added",
    "C05-m4": "missed by the first version of the check (MERGE together with Precision was not an option set of the check); caught after merge+prec pairs were added",
    "C06-m3": "missed by the first version of the check (arrays up to 160 elements); caught after arrays of 300-700 elements edited at both ends / rotated were added",
    "C06-m4": "missed by the first version of the check (no option was ever passed); caught after the same oracles are also run under Precision(0.1) on whole-number documents",
    "C08-m3": "caught. The demonstration asserted the concrete type jsonSet of a Patch result; it was adapted by one line after the D30 repair (Patch returns a plain array)",
    "C08-m4": "NOT counted as a violation of C08: the change only shows when the same receiver value is patched a second time (or read after Patch). jd consumes the receiver of Patch on the unchanged tree as well (object and list patches write into it), every check re-parses its inputs, and the statement says nothing about the receiver after the call. Kept for the record",
    "C10-m3": "missed by the first version of the check; caught after the '-' token inside a path (add /-/x) was added to the odd-token variation",
    "C10-m4": "missed by the first version of the check (no key containing ~1); caught after the keys ~1, a~1b, x~01, ~01 were added to the key pool",
    "C11-m3": "missed by the first version of the check (nesting up to 10); caught after chains of 28-45 nested objects were added",
    "C11-m4": "missed by the first version of the check; caught after adjacent-float edits were added",
    "C12-m3": "missed by the first version of the check (every case started from freshly parsed documents); caught after the chain leg (patches applied to the value returned by the previous Patch, plus probe patches on fresh documents after every step) was added",
    "C12-m4": "missed by the first version of the check (no empty-string key in merge documents); caught after the nasty key pool was switched on for C12",
    "C13-m4": "missed by the first version of the check (.inf and .nan but not -.inf among the hostile constants); caught after the negative and tagged spellings were added",
    "C14-m3": "missed by the first version of the check; caught after -setkeys is also written with blanks around the keys, as the usage text allows",
    "C14-m4": "missed by the first version of the check; caught after 10% of the documents carry a 70 KB string (stdin legs) ",
    "C16-m4": "missed by the first version of the check (Json()/Yaml() were never called with a reading option); caught after the SET / MULTISET render round trips and repeated array elements were added",
    "C01-m5": "missed by the first version of the check (arrays of at most 700 elements); caught after pairs of ~1050-element arrays with a run of equal elements that grows were added",
    "C01-m6": "missed by the first version of the check; caught after the 're-split two neighbouring key names' edit ({\"ab\":x,\"c\":y} -> {\"a\":x,\"bc\":y}) was added",
    "C02-m5": "first seen as a dead process (the shared nodes make Patch build a cyclic document and the stack overflows), which the driver used to report as inconclusive; caught since the driver re-runs a shard whose process died with case tracing and confirms the last case in a fresh process",
    "C03-m5": "missed by the first version of the check (sub-diffs were only applied in memory and no line was longer than 70 KB); caught after half of the cases go through Render + ReadDiffString and a rare case with 1.1 MB context elements was added",
    "C03-m6": "missed by the first version of the check; caught after the 'hash twin' perturbation (an element named by the hunk replaced by the number whose bytes equal its fixed hash input) was added",
    "C06-m5": "not caught by C06 (its statement has no Precision configuration; the C06 check passes Precision only on whole-number documents). It is the regression of repair D25 and is caught by the C14 precision leg (exit 1, 3 violations)",
    "C06-m6": "missed by the first version of the check; caught after arrays with one long run (28-70 equal neighbours) whose length changes or which is interrupted were added",
    "C07-m5": "missed by the first version of the check (it is a minimality defect: one hunk removes and re-adds hundreds of unchanged elements, which C06 catches); C07 now also requires that the removed and the added run of a list hunk have no common subsequence (a value on both sides is an unchanged element restated), and generates 520-700 element arrays with two edits far apart",
    "C09-m5": "missed by the first version of the check; caught after strings that contain a literal backslash-u003c / u003e / u0026 were added to the payload pool",
    "C10-m5": "missed by the first version of the check; caught after the 'parent-path' variation (a context-free hunk re-addressed to the parent of the hunk before it) was added",
    "C10-m6": "NOT counted: both demonstrations use context tests that are not adjacent to the edit position (test /3 with an add at /1; tests with an append), which is outside the subset the statement quantifies over; the unchanged tree rejects these documents",
    "C13-m5": "NOT counted as a violation of C13: it only shows when the receiver of Patch is used again after the call (or after a failed call); Patch consumes its receiver on the unchanged tree too (see C08-m4)",
    "C14-m5": "the delivered patch no longer applied after repair D34 touched the same lines; it was re-made by hand on the current tree (output file created before the inputs are read). Missed by the first version of the check, caught after 'jd -p -o DOC DIFF DOC' (patch in place) was added",
    "C15-m5": "missed by the first version of the check; caught after the fresh-process leg got 35% documents with a 5-70 KB string and more set / multiset option sets",
    "C16-m5": "the delivered patch no longer applied after repair D36 rewrote renderYaml; re-made by hand on the current tree. Caught after strings holding literal \\U0001F600 text were added to the pool",
    "C16-m6": "re-made by hand after D36 like C16-m5. Caught after strings ending in '- 1e+06' / 'k: 3e+21' and the YAML text of another document as a string value were added",
    "C05-m5": "missed by the first version of the check (no array held one value more than 255 times); caught after multisets with multiplicities 255/256/257/300 exchanged between the sides were added",
    "C05-m6": "missed by the first version of the check (documents under MERGE were always null-free, which the biconditional does not need); caught after MERGE pairs with null members were added to C05",
    "C11-m6": "missed by the first version of the check; caught after gen.PathTwins (a nested member k1 -> k2 next to a sibling key spelling 'k1 k2', 'k1/k2', 'k1.k2' ..., both changing) was added",
    "C17-m5": "missed by the first version of the check (C17 used only the plain key pool); caught after 30% of the C17 cases draw keys and strings from the nasty / payload pools (control characters, quotes, backslashes)",
    "C17-m6": "missed by the first version of the check (no run of the top-level binary with -v2=false in C17); caught after the C17 cli leg was added; C14 catches it too at higher case counts",
    "C18-m5": "missed by the first version of the check; caught after the keys %41, 100%25, a%2Fb, q%20r were added to the key pool",
    "C12-m5": "missed by the first version of the check (C12 only called the library); caught after the C12 cli leg (-f merge -p, 35% with -yaml, patches holding 2^63, DEL, NEL, U+FFFE) was added",
    "C12-m6": "missed by the first version of the check; caught by the C12 cli leg (per cent signs in patch values and member names)",
    "C03-m7": "missed by the first version of the check (every hunk had one context line per side, as Diff writes them); caught after 12% of the C03 cases widen each list hunk to two context lines per side (the second one being the [ / ] marker where the array ends there)",
    "C04-m7": "missed by the first version of the check; caught after gen 'hash shapes' were added: a key that spells key + content-code(value) + key of a two-member object (numbers whose 8-byte code is valid UTF-8), neighbouring strings split at another place",
    "C04-m8": "missed by the first version of the check; caught after pairs of two-decimal numbers whose 64-bit content codes share their first four bytes (found by a birthday search at start-up) were added, in exchanged order",
    "C05-m7": "missed by the first version of the check (the C05 cli leg never used stdin); caught after 25% of the runs pass the second document on standard input and 12% of the pairs carry a common 70 KB member (every input line longer than 64 KB)",
    "C06-m7": "missed by the first version of the check (long arrays were flat); caught after long-in-long arrays were added (60-180 scalars around one element that holds another 60-180 element array changed in one place)",
    "C06-m8": "NOT counted for C06: the Diff value is untouched, only DiffElement.Render writes the context line wrongly (a per cent sign in it); that is C02's subject and C02 reports it (quick, 14 violations)",
    "C07-m7": "missed by the first version of the check (SET and MULTISET were never given together); caught after the option sets set+mset / mset+set were added to C01, C04, C05, C07, C14, C17",
    "C07-m8": "NOT counted: the property quantifies over {list, SET, MULTISET, SetKeys, MERGE}; under Precision(eps) the unchanged tree already emits hunks for numbers that are Equal within eps, so no check of C07 can be stated there",
    "C08-m8": "(re-made by hand on the current tree after repair D39 touched the same lines) missed by the first version of the check (key values were never null, and no look-alike member stood in front of the addressed one); caught after explicit null key values and the perturbations 'look-alike with one key different / lacking one key in front of the addressed member' were added",
    "C09-m7": "NOT counted for C09 (no input shows it, only concurrent calls); it is a purity defect and C15 reports it since the determinism leg also calls Diff / Render* from 8 goroutines at once (quick, 4 violations)",
    "C09-m8": "missed by the first version of the check (documents always came from a reader); caught after the C09 'patched' leg was added (a' = Patch(A, A.Diff(X)) with arrays emptied, diffed against B and translated)",
    "C10-m8": "NOT counted: the triggering file is not a JSON Patch document (text after the closing bracket), which is outside the statement's quantifier; the unchanged tree likewise reads the text null as the empty patch. The file entry points are now exercised by the C10 / C12 'file' legs on documents",
    "C11-m7": "missed by the first version of the check (the option list never held Precision(0), which both binaries always append); caught after merge+prec:0, set+merge+prec:0, mset+merge+prec:0 were added",
    "C11-m8": "missed by the first version of the check; caught after array members that are strings with a common prefix of 57 ... 70000 bytes were added",
    "C12-m8": "missed by the first version of the check (YAML targets were written by the harness's own emitter only); caught after half of the -yaml runs use jd's own Yaml() text, with multi-line and blank-ended strings in the target; C16 catches it too",
    "C13-m8": "missed by the first version of the check (no -o in the C13 cli leg); caught after -o with writable, missing-directory, directory and empty paths was added",
    "C14-m8": "missed by the first version of the check; caught after merge-mode pairs get a changed member from a list of values on which JSON and YAML readers disagree (2^63, DEL, NEL, U+FFFE, -0) and such cases run with -yaml more often",
    "C15-m7": "NOT counted: needs a Diff value assembled by hand on which RenderMerge fails half way; the property quantifies over a.Diff(b, options) and diffs read from merge patches. (On such hand-assembled diffs the unchanged tree itself lets RenderMerge write into document b through a shared node.)",
    "C15-m8": "caught by the first version of the check that had wide objects (64-140 keys), added in this round together with the concurrent phase",
    "C16-m7": "missed by the first version of the check: the input is in the class of known finding D19, whose predicate suppressed every failure on blank root strings; the predicate now also requires the observed failure mode (reads back as the empty document)",
    "C17-m7": "missed by the first version of the check; caught after set+mset / mset+set were added to the v1 option sets",
    "C17-m8": "missed by the first version of the check; caught after lists of 60-150 numbers with a few moved by less than eps were added to the precision pairs",
    "C18-m8": "missed by the first version of the check; caught after the C18 'patched' leg was added (a' from a v1 strict Patch, then merge / patch renderings of a'.Diff(b) evaluated and read back)",
    "C01-m10": "missed by the first version of the check; caught after arrays of 1025-1200 elements of equal length with one or two substituted elements (first, middle, last-but-one, last) or one element gone were added",
    "C02-m9": "missed by the first version of the check; caught after strings that look like terminal colour sequences without the escape byte ([m], [10m], a[1;2m, [31mFAILED[0m) were added to the payload pool",
    "C04-m9": "missed by the first version of the check (number lists under Precision had 60-150 elements); caught after 15% of them got 1024-1200 elements",
    "C04-m10": "missed by the first version of the check; caught after pairs of pairs of small whole numbers whose 64-bit content codes have the same XOR (or the same sum) were added (found by a search at start-up): [a,b] against [c,d] under SET",
    "C06-m9": "caught by the 8-byte-string / same-bytes-number pairs facing each other in a list, added to C06 in this round (the alias pairs existed in C04/C05 since D3)",
    "C06-m10": "caught by identifier-like strings (and two-decimal numbers) whose content codes share four bytes, found by a birthday search at start-up and placed face to face in otherwise equal lists; added to C06 in this round",
    "C07-m9": "NOT counted: needs array members that lack one of the SetKeys keys; every check applies the precondition C01 states (each member object carries all keys), without which the unchanged tree itself gives members one identity",
    "C07-m10": "missed by the first version of the check (documents under MERGE were null-free on both sides); caught after nulls and empty objects were allowed on the a side (b stays null-free)",
    "C08-m10": "missed by the first version of the check; caught after set / multiset hunks on string members of 70 ... 70000 bytes with a same-length twin differing in one byte (start, middle, end) in the target were added",
    "C11-m9": "missed by the first version of the check; caught after gen.RepeatedBlocks (two to four sibling keys holding the same container of four or more members, all edited alike) was added",
    "C12-m10": "NOT counted: the only effect is that a zero keeps its old sign; 0 and -0 are the same number for Equals under every reading (see D10) and for the value comparison of the oracle",
    "C13-m10": "missed by the first version of the check; caught after patches that leave no document (@ [] with a matching removal, test+remove at the root, merge patch null, the empty patch on the empty document) were added to the cli leg, half of them with -o",
    "C14-m10": "missed by the first version of the check (-yaml input files were written by the harness's emitter only); caught after half of the -yaml runs use jd's own Yaml() text with a newline-ended string as the last value of the file",
    "C15-m9": "missed by the first version of the check; caught after the objects with number-like keys were also placed inside arrays nested in arrays",
    "C15-m10": "missed by the first version of the check (documents under MERGE were null-free); caught after b may hold objects with null members under MERGE (purity is checked, the round trip is not claimed there)",
    "C16-m9": "missed by the first version of the check; caught after every document is also read from decorated YAML (document start / end markers, directive, comment lines, trailing comment)",
    "C17-m9": "missed by the first version of the check; caught after gen.SpellingTwins (one array holding several spellings of the same nested container, b keeping fewer) was added",
    "C17-m10": "missed by the first version of the check; caught after set+merge and mset+merge were added to the v1 option sets (spelling twins reach it)",
    "C01-m11": "missed by the first version of the check; caught after copies of a keyed member may spell the arrays inside their key values in another member order (gen.RespellKeyValues; key values can now be two-element arrays)",
    "C01-m12": "missed by the first version of the check; caught after gen.BracketTwins (the same scalars in the same order, a nested list closing at another place) was added to the hash-shape pairs, which the shared pair generator now also draws",
    "C06-m11": "missed by the first version of the check; caught by the bracket twins placed face to face in otherwise equal lists",
    "C06-m12": "missed by the first version of the check; caught after objects whose values are exchanged between the keys were placed face to face in otherwise equal lists (C01/C05 had value exchanges before)",
    "C09-m11": "missed by the first version of the check (every call got a freshly made diff); caught after C09 renders the diff first and then applies the same value natively, comparing with a freshly made diff; C15 catches it too",
    "C09-m12": "as C09-m11",
    "C11-m11": "missed by the first version of the check; caught after the edit 'negate a number' was added to gen.Edit",
    "C13-m12": "missed by the first version of the check; caught after keyed hunks on targets holding several members with the addressed key value (copies and look-alikes, the rest of the hunk fitting some of them), followed by a second hunk on the same array, were added to the structure leg",
    "C14-m11": "caught at seeds 2 and 3, missed at seed 1 by the first version of the check; -setkeys now has twice the weight among the option sets of C14",
    "C14-m12": "NOT counted: needs -precision together with -setkeys; on that combination the unchanged tree is itself incoherent (members differing within eps are not Equal while the diff is empty, see the observations in DESIGN.md), so no oracle of C14 can be stated there",
    "C15-m11": "missed by the first version of the check; caught after -set -mset was added to the option sets of the fresh-process leg",
    "C15-m12": "missed by the first version of the check (no Precision in the history leg, option list not observed); caught after histories under Precision(eps) on documents with differences below and above eps were added and the option list is compared with a fresh one after every call",
    "C16-m11": "missed by the first version of the check; caught after strings ending in a backslash and strings holding //, /* */ were added to the C16 pool and the payload pool",
    "C16-m12": "missed by the first version of the check (the diff file was always called d.jd); caught after the name of the diff file varies with the case (d.jd, d.json, d, d.txt, d.yaml, d.yml)",
    "C08-m7": "the delivered patch no longer applied after repair D39 touched the same lines; re-made by hand on the current tree. Caught",
    "C08-m9": "the delivered patch no longer applied after repair D39; re-made by hand on the current tree. Caught",
    "C04-m14": "missed by the first version of the check (SetKeys documents always had unique key tuples, which Equals does not need); caught after look-alike members (same key values, different content) were added to the random leg of C04",
    "C05-m14": "missed by the first version of the check; caught after setkeys:id,k was added to the C05 option sets. The D21 predicate is applied there in its narrow form (two members of one array with permuted key tuples), so that a pair whose tuples are permuted between a and b, as this change needs, is judged",
    "C06-m13": "missed by the first version of the check; caught after containers changed two or three levels down with edited neighbours were added",
    "C13-m13": "missed by the first version of the check; caught after metadata lines with known member names and wrong value kinds (^ {\"Version\":\"2\"}, ^ {\"Merge\":null}, ^ {\"setkeys\":\"id\"} ...) were added to the hostile constants and to the C02 line pool",
    "C13-m14": "missed by the first version of the check; caught after the translate mode of the cli leg also feeds well-formed structured diffs (set paths, keyed paths, long context) to -t jd2patch / jd2merge and got more weight",
    "C17-m11": "missed by the first version of the check (it had looked caught only because of D39v1); caught after MERGE together with SetPrecision was added to the v1 option sets",
    "C17-m12": "the delivered patch no longer applied after repair D39v1; re-made by hand on the current tree. Caught",
    "C17-m13": "missed by the first version of the check; caught after the C17 cli leg writes the diff and the patched document with -o over an existing longer file",
    "C18-m13": "missed by the first version of the check; caught after integer-looking key twins (1 next to 01, +1, 1e0; 0 next to -0, 00; also negative) were added to C18",
    "C02-m15": "missed by the first version of the check; caught after the synthetic leg builds list hunks with context below a keyed member (mixed path kinds)",
    "C03-m16": "missed by the first version of the check (a panic of Patch counted as 'rejected'); caught after a panic is reported ('Patch returns an error') and targets get an array on the path of a hunk cut to exactly the index the path goes through",
    "C04-m15": "missed by the first version of the check; caught after setkeys:id,k was added to the C04 option sets",
    "C06-m15": "NOT counted for C06: needs Precision(eps > 0) and numbers that differ within eps, where C06 has no oracle (it runs under Precision only on whole-number documents); the effect is a diff that does not apply, which the precision round-trip leg of C14 reports (quick, 2 violations)",
    "C06-m16": "NOT counted for C06: the Diff value is untouched, only DiffElement.Render writes the empty string as a boundary marker; C02 reports it (quick, 12 violations)",
    "C07-m15": "NOT counted for C07: a same-position container pair is replaced instead of entered, which restates equal members but is not a no-op or redundant hunk at the granularity C07 can state (the unchanged tree replaces containers wholesale whenever they are not aligned); it is C06's recursion clause and C06 reports it (quick, 2 violations)",
    "C07-m16": "missed by the first version of the check (no Precision(0), which both binaries always pass); caught after prec:0 was added to the option sets of C07 and C01; C14 catches it too",
    "C09-m15": "missed by the first version of the check; caught after gen.PathTwins also plants lists that change in the middle (hunks with context) under the nested and the flat key, and genListPairNasty draws path twins",
    "C12-m16": "missed by the first version of the check; caught after a quarter of the C12 cli runs write to -o over an existing longer file and the patch {} on object targets got more weight",
    "C14-m16": "missed by the first version of the check; caught after the option set setkeys:'a b' (a key name with a blank inside) was added to C14",
    "C15-m16": "missed by the first version of the check; caught after key triples with digits inside (a01, a0a, a1e, v01, v10, v1a ...) were added to the number-like key pool",
    "C16-m15": "missed by the first version of the check; caught after a third of the translation runs of the C16 cli leg also pass -yaml",
    "C17-m15": "missed by the first version of the check; caught after mset+setkeys:id was added to the v1 option sets",
    "C18-m15": "missed by the first version of the check; caught after path twins (also with '/' as the separator and lists as values) were added to C18",
    "C18-m16": "missed by the first version of the check; caught after objects holding 2^63, 2^63-1, 1e19, -2^63 as old / new values were added to C18 (and 2^63, 1e19, 2^64-2048 to the float pool)",
    "C14-m2": "missed by the first version of the check (stdin was always a pipe); caught after a run with stdin redirected from a regular file was added",
}

os.makedirs("/verif/seeded", exist_ok=True)
for res in sorted(glob.glob("/tmp/mut-results/*.json")):
    mid = os.path.basename(res)[:-5]
    if len(sys.argv) > 1 and mid not in sys.argv[1:]:
        continue
    prop, m = mid.split("-")
    src = "/tmp/mut-%s-out/%s" % (prop, m)
    try:
        r = json.load(open(res))
        meta = json.load(open(os.path.join(src, "meta.json")))
    except Exception as e:
        print("skip", mid, e); continue
    dst = os.path.join("/verif/seeded", mid)
    os.makedirs(dst, exist_ok=True)
    shutil.copyfile(os.path.join(src, "patch.diff"), os.path.join(dst, "patch.diff"))
    for demo in ("demo_test.go", "demo.sh"):
        if os.path.exists(os.path.join(src, demo)):
            shutil.copyfile(os.path.join(src, demo), os.path.join(dst, demo))
    checks = {k: {"exit": v["rc"], "violations": v["violations"], "first_violation": v["first"].strip()[:400]} for k, v in r["checks"].items()}
    out = {
        "id": mid,
        "property": meta.get("property", prop),
        "summary": meta.get("summary"),
        "needs": meta.get("needs"),
        "files": meta.get("files"),
        "demo": {"dir": meta.get("demo_dir"), "cmd": meta.get("demo_cmd")},
        "confirmed_by_me": {
            "how": "tools/eval_mutant.py: demo on the clean scratch worktree, then patch applied: demo again, both modules' test suites (go test ./... ; v2: go test . ./jd/), then ./check <property> quick with VERIF_SEED=1 built against the patched worktree (VERIF_REPO_OVERRIDE); worktree reset afterwards",
            "demo_passes_clean": r.get("demo_clean_rc") == 0,
            "demo_fails_with_change": r.get("demo_mutant_rc") != 0,
            "existing_suite_passes_with_change": r.get("suite_rc") == [0, 0],
        },
        "checks_run": checks,
        "caught": any(v["rc"] == 1 for v in r["checks"].values()),
        "note": NOTES.get(mid, ""),
    }
    try:
        prev = json.load(open(os.path.join(dst, "meta.json")))
        if "repo_run" in prev:
            out["repo_run"] = prev["repo_run"]
    except Exception:
        pass
    json.dump(out, open(os.path.join(dst, "meta.json"), "w"), indent=1)
    print(mid, "caught" if out["caught"] else "MISSED", out["confirmed_by_me"])
