#!/usr/bin/env python3
"""Rewrites the 'seeded changes' table of DESIGN.md (between the markers) from /verif/seeded/*/meta.json."""
import glob, json, os, re
rows = []
for m in sorted(glob.glob("/verif/seeded/*/meta.json")):
    j = json.load(open(m))
    checks = ", ".join("%s (exit %d, %d violations)" % (k, v["exit"], v["violations"]) for k, v in j.get("checks_run", {}).items())
    summary = (j.get("summary") or "").replace("|", "/").replace("\n", " ")
    needs = (j.get("needs") or "").replace("|", "/").replace("\n", " ")
    if len(summary) > 260: summary = summary[:257] + "..."
    if len(needs) > 260: needs = needs[:257] + "..."
    note = (j.get("note") or "").replace("|", "/")
    rows.append("| %s | %s | %s | %s | %s | %s |" % (j["id"], j["property"], summary, needs, "caught: " + checks if j.get("caught") else "NOT caught: " + checks, note))
table = "| id | property | change | needs | result of the property's quick check | note |\n|---|---|---|---|---|---|\n" + "\n".join(rows) + "\n"
p = "/verif/DESIGN.md"
s = open(p).read()
b, e = "<!-- seeded-table-begin -->", "<!-- seeded-table-end -->"
if b in s:
    s = s[:s.index(b) + len(b)] + "\n" + table + s[s.index(e):]
    open(p, "w").write(s)
    print("table updated:", len(rows), "rows")
else:
    print("markers missing")
