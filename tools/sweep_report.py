#!/usr/bin/env python3
"""Copies the results of tools/sweep.py into /verif/sweep/ and writes /verif/sweep/REPORT.md."""
import json, os, shutil, sys
srcs = sys.argv[1:] or ["/tmp/sweep1"]
dst = "/verif/sweep"
os.makedirs(os.path.join(dst, "survivors"), exist_ok=True)
g = {"candidates": 0, "tried": 0, "build_fail": 0, "killed": 0, "survived": 0, "list": []}
j, where = {}, {}
for src in srcs:
    g1 = json.load(open(os.path.join(src, "gen.json")))
    g["candidates"] = max(g["candidates"], g1["candidates"])
    for k in ("tried", "build_fail", "killed", "survived"):
        g[k] += g1[k]
    for e in g1["list"]:
        if e["id"] in where:
            g["tried"] -= 1; g["survived"] -= 1  # drawn twice
            continue
        where[e["id"]] = src
        g["list"].append(e)
    jp = os.path.join(src, "judge.json")
    if os.path.exists(jp):
        for k, v in json.load(open(jp)).items():
            j.setdefault(k, v)
WHY = {
 "v2_diff_write-121-14-3": "equivalent: a void addition is the only added value of its hunk, so stopping after it skips nothing",
 "v2_diff_write-256-14-4": "equivalent: same as above in RenderPatch",
 "main-674-1-8": "outside the properties: runAsGitHubAction (the GitHub action wrapper, DESIGN section 5)",
 "main-670-0-17": "outside the properties: runAsGitHubAction",
 "main-678-4-17": "outside the properties: runAsGitHubAction",
 "main-60-1-9": "outside the properties: the web UI (-port)",
 "main-158-0-17": "outside the properties: the web UI",
 "v2_options-76-1-8": "outside the properties: JSON (un)marshalling of Option values, used by no reader, renderer or binary",
 "v2_options-131-1-6": "outside the properties: JSON (un)marshalling of Option values",
 "v2_options-144-20-1": "outside the properties: JSON (un)marshalling of Option values",
 "v2_options-148-20-1": "outside the properties: JSON (un)marshalling of Option values",
 "v2_options-152-20-1": "outside the properties: JSON (un)marshalling of Option values",
 "v2_multiset-133-5-13": "equivalent: a loop of zero iterations",
 "v2_multiset-146-5-11": "equivalent: a loop of zero iterations",
 "v2_diff_write-67-12-24": "equivalent for C02: colour rendering without the character-level highlight is still the plain text plus ANSI sequences",
 "lib_object-124-12-10": "equivalent: dead branch (mergeKeys)",
 "lib_path-28-17-6": "equivalent: dead branch of prependMetadataMerge (no Diff reaches it)",
 "lib_path-35-18-20": "equivalent: dead branch of prependMetadataMerge",
 "lib_object-95-16-4": "outside the precondition: only changes the identity of members that carry none of the set keys",
 "v2_diff_read-14-1-8": "GAP, closed: ReadDiffFile returned (nil, nil) for every readable file and no check called it; C02 now reads one rendering in sixteen through ReadDiffFile as well (re-judged: killed by C02)",
 "lib_diff_read-80-21-23": "equivalent: the removed call was a type conversion written .clone() by the pattern",
 "v2_set-201-20-2": "equivalent: the len(pathAhead)==0 base case of jsonSet.patch is dead (jsonArray.patch sends such hunks to jsonList)",
 "v2_multiset-172-7-24": "equivalent: dead base case of jsonMultiset.patch",
 "v2_diff_read-307-5-59": "equivalent inside the subset C10 quantifies over",
 "v2_diff_read-327-4-21": "equivalent inside the subset: an after-context test at index 0 only exists where the expected index is 0 too",
 "v2_diff_read-367-5-18": "equivalent for C10: two hunks at one path instead of one coalesced hunk act alike",
 "v2_diff_read-600-21-32": "equivalent: every leaf clones the path before storing it",
 "lib_diff_read-269-21-32": "equivalent: every leaf clones the path before storing it",
 "v2_set-157-6-16": "equivalent: two members with one identity are both objects or the same non-object",
 "v2_diff_read-222-8-23": "equivalent for the properties: only the line number in an error message changes",
 "lib_list-87-4-12": "equivalent: for lists of equal length both branches emit the same hunks",
 "v2_list-413-6-19": "equivalent for generated hunks: a void before-context line only occurs at index 0",
 "v2_void-19-13-9": "equivalent: isNull(nil); nil nodes do not occur",
 "v2_list-174-15-3": "equivalent: the loop ends at the next test either way",
 "v2_jd_main-290-13-14": "equivalent: the flag is ignored on the error path",
 "v2_list-340-12-10": "equivalent: dead arm of sameContainerType",
 "v2_list-445-14-4": "equivalent: a void after-context line is the last one, so leaving the loop skips nothing",
 "lib_list-222-5-12": "outside the properties: only changes (to a panic) what the v1 patch does with a hunk that does not match the document; C17/C18 quantify over jd's own diffs and C13's anchors are in v2",
 "lib_object-222-16-5": "equivalent for the properties: a multi-valued hunk addressed through a plain key is an error with and without the mutation",
 "v2_object-221-16-5": "equivalent for the properties: a multi-valued hunk addressed through a plain key is an error with and without the mutation",
 "v2_set-196-5-20": "equivalent: dead base case of jsonSet.patch",
 "lib_path-27-21-29": "equivalent: dead branch of prependMetadataMerge",
 "lib_diff_read-135-10-23": "equivalent for the properties: only the line number in an error message changes",
 "v2_multiset-172-5-42": "equivalent: dead base case of jsonMultiset.patch",
 "v2_options-140-1-8": "outside the properties: JSON (un)marshalling of Option values",
 "v2_set-209-5-20": "outside the properties: a path that ENDS in a keyed member ({\"id\":1} last) is never emitted; the clean tree rejects it, the mutant replaces the member, and no property says which",
 "v2_list-397-17-5": "GAP, closed: a hunk at index -1 that removes one value was applied as a no-op, so the JSON Patch [test /-, remove /-] applied where RFC 6902 rejects it; C10 had no variation moving a pair to \"-\"; pair-at-dash added (re-judged: reported by C10)",
 "v2_diff_read-621-21-10": "equivalent: the path handed to the leaf is a fresh slice already",
 "v2_diff_read-332-14-3": "equivalent: a hunk read with an after-context test always ends in an index",
 "v2_diff_read-488-6-85": "outside the subset C10 quantifies over: differs only where the first test is not next to the edit position",
 "v2_diff_read-488-4-99": "outside the subset C10 quantifies over: differs only for a context test that names the edit position itself",
 "v2_diff_read-479-5-99": "outside the subset C10 quantifies over: differs only for a context test that names the edit position itself",
 "v2_object-221-7-49": "outside the properties: a hunk with several removed values addressed to an object (no {} or [] in the path) is never emitted; the clean tree rejects it, the mutant uses the first value",
 "lib_patch_common-44-7-23": "outside the properties: as above, in v1",
 "lib_set-182-5-42": "equivalent: dead base case of the v1 set patch",
 "v2_jd_main-42-18-25": "GAP, closed: jd called with no argument at all crashed with a stack trace (os.Args[1]); C13's cli leg had no malformed argument lists; added (bare call, three files, unknown flag, ...: status 2 and no stack trace) (re-judged: reported by C13)",
 "v2_jd_main-254-13-13": "equivalent: the flag is ignored on the error path",
 "v2_path-157-5-11": "equivalent: drop() is not called on an empty path",
 "lib_list-91-4-12": "equivalent: for lists of equal length both branches emit the same hunks",
 "lib_diff_read-38-14-3": "equivalent for the properties: a v1 rendering has no empty line except the last",
 "main-197-7-31": "outside the properties: -precision together with -set is an unsupported flag combination (C14 quantifies over the supported ones); the mutant runs it instead of refusing",
 "lib_multiset-137-5-11": "equivalent: a loop of zero iterations",
 "v2_list-253-6-17": "equivalent: once a sub-diff has been appended the first hunk already has its after-context",
 "lib_path-37-18-24": "equivalent: dead branch of prependMetadataMerge",
 "v2_diff_read-222-10-23": "equivalent for the properties: only the line number in an error message changes",
 "v2_set-209-6-7": "outside the properties: differs only for a path that continues behind {} or an index inside a set, which jd never emits and rejects on the clean tree",
 "main-331-13-13": "equivalent: the flag is ignored on the error path",
 "v2_list-336-12-10": "equivalent: dead arm of sameContainerType (under SET arrays never reach jsonList.diff)",
 "v2_bool-5-12-26": "equivalent: a compile-time interface assertion",
 "v2_jd_main-438-1-8": "outside the properties: runAsGitHubAction",
 "lib_list-195-5-12": "outside the properties: only changes (to a panic) what the v1 patch does with a hunk whose path continues behind the end of an array; C17/C18 quantify over jd's own diffs",
 "main-423-13-14": "equivalent: the flag is ignored on the error path",
 "v2_patch_common-47-17-4": "reported by C08 (the repair babea92 undone; C08 was not among the six properties the sweep ran for v2/patch_common.go)",
 "lib_diff_write-34-0-7": "outside the properties: colour rendering of the v1 library (C02's colour clause is about v2, C17 about plain Render)",
 "v2_multiset-215-5-17": "equivalent: a loop of zero iterations",
 "v2_diff_read-311-7-15": "equivalent: a hunk read with an after-context test has a non-empty path",
 "lib_diff_read-273-21-16": "equivalent: the path handed to an empty-object leaf is a fresh slice already",
 "lib_path-29-0-58": "equivalent: dead branch of prependMetadataMerge",
 "lib_multiset-163-5-20": "equivalent: dead base case of the v1 multiset patch",
 "lib_set-182-5-20": "equivalent: dead base case of the v1 set patch",
 "v2_options-124-1-8": "outside the properties: JSON (un)marshalling of Option values",
 "v2_options-113-20-2": "outside the properties: JSON (un)marshalling of Option values",
 "v2_list-436-4-11": "equivalent: at i == len(l) the appended slice is empty",
 "v2_diff_read-345-13-9": "equivalent for the properties: two ops coalesced at the root path give a hunk with two additions, which Patch rejects in either order",
 "v2_set-196-7-24": "equivalent: dead base case of jsonSet.patch",
 "lib_diff_write-154-7-22": "outside the properties: v1 RenderMerge of a diff that is not a merge diff (C18 quantifies over merge-mode diffs; the refusal is not part of it)",
 "v2_set-56-12-13": "equivalent: only the keys of that map are used",
 "v2_object-228-0-51": "reported by C12 (the repair b819fb7 undone; C12 was not among the six properties the sweep ran for v2/object.go)",
 "lib_object-127-12-10": "equivalent: only the keys of that map are used",
 "lib_object-104-12-14": "equivalent: only the keys of that map are used",
 "lib_object-222-7-49": "outside the properties: a hunk with several removed values addressed to an object is never emitted (v1 twin of v2_object-221-7-49)",
 "main-359-13-14": "equivalent: the flag is ignored on the error path",
 "main-387-13-13": "equivalent: the flag is ignored on the error path",
 "v2_set-196-5-42": "equivalent: dead base case of jsonSet.patch",
 "v2_object-228-16-44": "outside the properties: differs only for a hand-written native merge hunk that adds a one-member object onto an object; jd's merge diffs and its merge patch reader recurse into objects and never produce one",
 "v2_list-414-14-4": "equivalent: inside a switch, break leaves the switch and the loop goes on as with continue (looking at it showed that C03 never changed the OUTER line of two-line context; change-before-2 / change-after-2 added and confirmed with a hand-made mutant that skips the outer line)",
 "main-415-13-14": "equivalent: the flag is ignored on the error path",
 "lib_list-131-7-23": "outside the properties: a hunk with several removed values addressed to a v1 list base case is never emitted",
 "lib_set-56-12-13": "equivalent: only the keys of that map are used",
 "v2_diff_write-239-14-4": "equivalent: a void removal is the only removed value of its hunk",
 "lib_object-145-21-19": "equivalent: prependMetadataMerge builds a new slice itself",
 "v2_list-360-7-27": "outside the properties: a hunk that replaces a whole list and carries several removed values is never emitted; the clean tree rejects it, the mutant uses the first value",
 "lib_list-203-7-11": "outside the properties: only changes (to a panic) what the v1 patch does with an addition beyond the end of the array; C17/C18 quantify over jd's own diffs",
 "lib_object-200-21-44": "equivalent: prependMetadataMerge builds a new slice itself",
 "lib_multiset-124-5-13": "equivalent: a loop of zero iterations",
 "lib_path-109-14-3": "equivalent for the properties: v1 writes MERGE as the first metadata entry, so nothing that is not a string precedes it",
 "v2_object-254-16-6": "equivalent: under the merge strategy the empty document creates the missing objects on the way down exactly as an empty object does",
 "lib_patch_common-90-5-19": "equivalent for the properties: only the wording of an error message changes",
 "v2_list-253-4-13": "equivalent: once a sub-diff has been appended the first hunk already has its after-context",
 "v2_jd_main-139-7-31": "outside the properties: -precision together with -set is an unsupported flag combination (C14 quantifies over the supported ones)",
 "v2_jd_main-262-13-13": "equivalent: the flag is ignored on the error path",
 "lib_path-29-6-45": "equivalent: dead branch of prependMetadataMerge",
 "v2_multiset-177-20-2": "equivalent: dead base case of jsonMultiset.patch",
 "v2_multiset-172-5-20": "equivalent: dead base case of jsonMultiset.patch",
 "lib_multiset-163-7-24": "equivalent: dead base case of the v1 multiset patch",
 "lib_multiset-163-5-42": "equivalent: dead base case of the v1 multiset patch",
 "lib_multiset-168-20-2": "equivalent: dead base case of the v1 multiset patch",
 "v2_path-29-7-8": "equivalent: getOption returns a nil pointer exactly when it returns !ok",
 "v2_options-108-1-8": "outside the properties: JSON (un)marshalling of Option values",
 "v2_jd_main-57-1-9": "outside the properties: the web UI (-port)",
 "v2_diff_read-488-6-28": "outside the subset C10 quantifies over: differs only for a context test that names the edit position itself (test /1 x, test /1 y, remove /1), which is not a test of an adjacent element",
 "v2_pointer-46-13-10": "GAP, closed: a pointer token with a sign (/k/+4, /k/-1) was read as an array index again, and C10's odd-index-token variation had suffixes and leading zeros but no signs; signs added (re-judged: reported by C10)",
 "v2_list-206-20-3": "reported by C14 (the precision legs; C14 was not among the five properties the sweep ran for v2/list.go)",
 "lib_diff_read-144-1-8": "GAP, closed: v1 ReadPatchFile returned (nil, nil); C17/C18 now read one text in sixteen through the v1 file entry points too (re-judged: reported by C18)",
 "lib_diff_read-240-1-8": "GAP, closed: v1 ReadMergeFile returned (nil, nil); as above (re-judged: reported by C18)",
}
WHY.update(json.load(open(os.path.join(dst, "classification.json"))) if os.path.exists(os.path.join(dst, "classification.json")) else {})
rows, killed, unk, later = [], 0, 0, 0
for e in g["list"]:
    r = j.get(e["id"])
    if not r:
        continue
    shutil.copyfile(os.path.join(where[e["id"]], "survivors", e["id"] + ".diff"), os.path.join(dst, "survivors", e["id"] + ".diff"))
    kb = r.get("killed_by")
    if kb:
        killed += 1
        verdict = "reported by %s" % kb
    else:
        verdict = WHY.get(e["id"], "NOT ANALYSED")
        if verdict.startswith("GAP, closed") or verdict.startswith("reported by"):
            later += 1
        else:
            unk += 1
    rows.append("| %s | %s:%d | `%s` | `%s` | %s |" % (e["id"], e["file"], e["line"], e["op"].replace("|", "\\|"), e["new"].replace("|", "\\|")[:90], verdict))
json.dump({"generated": {k: v for k, v in g.items() if k != "list"}, "judged": len(rows), "reported_first_run": killed, "reported_after_extension_or_by_another_property": later, "equivalent_or_outside_the_properties": unk}, open(os.path.join(dst, "summary.json"), "w"), indent=1)
with open(os.path.join(dst, "REPORT.md"), "w") as f:
    f.write("# Mutation sweep (tools/sweep.py)\n\n")
    f.write("%d single-token mutations drawn at random from %d candidate sites in the non-test sources of both modules; %d killed by jd's own suite, %d survived it. Every survivor was applied in a scratch worktree and the quick checks of the properties anchored in the mutated file were run against it (at most five properties, VERIF_SEED=1, stopping at the first violation).\n\n" % (g["tried"], g["candidates"], g["killed"], g["survived"]))
    f.write("Survivors judged: %d. Reported by a check in that run: %d. Reported after a check was extended, or by a property that was not among the five: %d. Equivalent, or in code no property quantifies over: %d (each classified below).\n\n" % (len(rows), killed, later, unk))
    f.write("| id | site | operator | mutated line | verdict |\n|---|---|---|---|---|\n")
    f.write("\n".join(rows) + "\n")
print(len(rows), killed, unk, [e["id"] for e in g["list"] if e["id"] in j and not j[e["id"]].get("killed_by") and e["id"] not in WHY])
