"""Per-property legs and budgets. kind: rapid (random search, case counts) | enum (exhaustive)."""


def rapid(name, test, quick, thorough):
    return {"name": name, "test": test, "kind": "rapid", "quick": quick, "thorough": thorough}


def enum(name, test, quick, thorough):
    return {"name": name, "test": test, "kind": "enum", "quick": quick, "thorough": thorough}


NOT_APPLICABLE = {}

CHECKS = {
    "C06": {
        "technique": "exhaustive enumeration of small array pairs + rapid random generation, oracle = independent LCS optimum and reference hunk interpreter",
        "level_text": "Every ordered pair of arrays over a small alphabet up to a length bound is enumerated (complete for that universe) and "
                      "larger / nested / container-valued arrays are sampled; minimality is decided against an independently computed LCS and "
                      "context against a reference interpreter. Exploration, not proof: beyond the enumerated bound the property is sampled.",
        "level_note": "Trusts the harness LCS and reference interpreter (ref/hunk.go); arrays longer than 30 or alphabets above 6 symbols are not generated.",
        "rule": "exhaustive leg: every ordered pair of arrays over a 3-symbol alphabet up to length 5 (thorough: 4 symbols, length 6), "
                "at the root, under a key and inside an outer array; random leg: arrays up to length 30 over 2-6 symbols, arrays of "
                "containers edited at the top, and 'one container changed inside' pairs. Oracle: sum of removes/adds of the hunks "
                "addressed to the array vs len-LCS from an independent O(nm) LCS; exactly one before and one after line per index "
                "hunk, checked against the running document by the reference interpreter; script must lead to b. Non-trivial: "
                "0 < LCS < min(len) or >= 2 hunks or an inner-change pair; distinct by (a, b, embedding).",
        "assumptions": ["element equality of the reference LCS is canonical deep equality of harness values"],
        "legs": [
            enum("exhaustive", "TestC06Exhaustive", {"shards": 8}, {"shards": 16, "timeout": 6000}),
            rapid("random", "TestC06Random", {"checks": 20000, "shards": 2}, {"checks": 250000, "shards": 16, "timeout": 6000}),
        ],
    },
}
