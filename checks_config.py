"""Per-property legs and budgets. kind: rapid (random search, case counts) | enum (exhaustive)."""


def rapid(name, test, quick, thorough):
    return {"name": name, "test": test, "kind": "rapid", "quick": quick, "thorough": thorough}


def gofuzz(name, test, seconds):
    return {"name": name, "test": test, "kind": "gofuzz", "quick": None, "thorough": {"seconds": seconds}}


def enum(name, test, quick, thorough):
    return {"name": name, "test": test, "kind": "enum", "quick": quick, "thorough": thorough}


NOT_APPLICABLE = {}

CHECKS = {
    "C01": {
        "technique": "rapid random generation of document pairs and option sets + exhaustive small array pairs, oracle = round trip through the in-memory diff judged by Equals",
        "level_text": "Generated (a, b, option set) triples — edit-derived, independent and equal pairs, void documents, keyed sets, null-free "
                      "merge documents — are diffed and the unserialised diff is applied to a fresh a; the result must Equal b under the same "
                      "options. All pairs of small arrays over a 4-element alphabet are enumerated. Exploration: sampled beyond the enumerated universe.",
        "level_note": "Equality is jd's own Equals as the statement says (its correctness is C04's business; disagreement with the canonical-form "
                      "oracle is counted in the evidence). Documents are bounded in depth (<=4) and array length (<=9).",
        "rule": "random leg: (a, b) = (Doc, Edit(a)) 70% / independent 23% / equal 7%, option set drawn from list, set, mset, setkeys:id, "
                "setkeys:id,k, merge, set+merge, mset+merge with the preconditions of the statement built into the generator (null-free for merge, "
                "complete unique key tuples for setkeys); exhaustive leg: all ordered pairs of arrays of length <= 3 (thorough 4) over {0,1,[0],{\"a\":0}}, "
                "at the root and under a key, in list/set/mset mode. Non-trivial: a != b textually and the diff has >= 1 hunk; distinct by (a, b, options).",
        "assumptions": ["a fresh parse of a is used for every Patch because Patch mutates its receiver"],
        "legs": [
            enum("exhaustive", "TestC01Exhaustive", {"shards": 4}, {"shards": 16, "timeout": 6000}),
            rapid("random", "TestC01Random", {"checks": 30000, "shards": 4}, {"checks": 400000, "shards": 16, "timeout": 6000}),
        ],
    },
    "C02": {
        "cli": True,
        "technique": "rapid random generation of diffs (from Diff and from public DiffElement fields), round-trip + differential oracle on rendered text, structure and patch effect",
        "level_text": "Diffs produced by Diff under every option set and synthetic well-formed hunk sequences (all path kinds, absent / boundary / "
                      "value context, 0..n removes and adds, strict-then-merge sequences, hostile string payloads) are rendered, read back, "
                      "re-rendered, compared field by field and by their effect on target documents; colour output must be the plain output "
                      "plus ANSI sequences. Exploration over sampled diffs; the reader's (state, line kind) transitions exercised are listed.",
        "level_note": "Effect comparison is jd against jd (the diff vs the re-read diff); what a hunk should do is C03/C08's business. "
                      "Sequences are at most 3 synthetic hunks; context of at most two lines.",
        "rule": "leg text: a real rendering damaged line by line (dropped, repeated, exchanged, re-marked lines, lines from a pool of headers / metadata / markers, trailing blanks, CR, moved hunks, truncation, re-spelled values), or arbitrary bytes from the native fuzzer in the thorough tier; every text the reader accepts must give a diff that survives Render/ReadDiffString unchanged and acts like its re-read twin; leg diffs: d = a.Diff(b, opts) over C01's generator with payload strings and nasty keys, targets a and a perturbed document; "
                "leg synthetic: 1-3 hunks built from DiffElement fields, strict hunks first then merge hunks, a target constructed to fit the first hunk "
                "plus a random one; leg cli: both binaries print the diff of payload-heavy documents (%, quotes, control characters, 70 KB strings), the text must equal the library rendering and jd -p must turn a into b. Non-trivial: >= 2 hunks, or a non-boundary context line, or a metadata line, or a multi-value set hunk, or a payload "
                "needing JSON escapes; distinct by the full case.",
        "assumptions": ["well-formedness of synthetic hunks = what checkDiffElement documents: several values only on index/set/multiset paths, void add only in merge hunks, context only on index hunks"],
        "legs": [
            rapid("diffs", "TestC02Diffs", {"checks": 20000, "shards": 4}, {"checks": 200000, "shards": 16, "timeout": 6000}),
            rapid("synthetic", "TestC02Synthetic", {"checks": 30000, "shards": 4}, {"checks": 300000, "shards": 16, "timeout": 6000}),
            rapid("cli", "TestC02CLI", {"checks": 120, "shards": 4, "shrinktime": "10s"}, {"checks": 2000, "shards": 16, "timeout": 6000}),
            rapid("text", "TestC02Text", {"checks": 20000, "shards": 4}, {"checks": 200000, "shards": 16, "timeout": 6000}),
            gofuzz("fuzz-text", "FuzzC02Text", 120),
        ],
    },
    "C03": {
        "technique": "rapid random generation of (diff, sub-sequence, target) triples, differential oracle = independent reference interpreter of strict hunks",
        "level_text": "List-mode diffs of generated pairs, arbitrary sub-sequences of their hunks and targets perturbed around the positions the "
                      "hunks address are applied by jd and by a reference interpreter written from the documented hunk semantics; jd must fail "
                      "exactly when the reference fails and agree on the result otherwise. Exploration over sampled triples.",
        "level_note": "Trusts ref/hunk.go (strict interpretation: leaf expectation, remove-must-match, before/after context with boundary markers). "
                      "A recovered panic counts as a rejection here and is reported under C13.",
        "rule": "(a, b) list-mode pairs; hunks = all / one / a drawn sub-sequence of a.Diff(b); target c = a, b, a with a prefix of hunks applied, "
                "Edit(a), or a with the array addressed by a drawn hunk perturbed next to the hunk's index (element before / after / removed changed, "
                "array shifted, truncated, extended). Non-trivial: the hunks carry a non-boundary context line and c != a; distinct by (a, b, keep, c).",
        "assumptions": ["the reference interpreter is the specification of strict hunks (README feature 3, doc/v2.md)"],
        "legs": [
            rapid("random", "TestC03Random", {"checks": 30000, "shards": 4}, {"checks": 300000, "shards": 16, "timeout": 6000}),
        ],
    },
    "C04": {
        "technique": "rapid random generation of boundary pairs + exhaustive pairs of type-confusable atoms, oracle = independent canonical forms",
        "level_text": "Pairs built to sit on the decision boundary (permutations, duplications, single confusable swaps, edit-derived and independent "
                      "documents, numbers nudged around eps) are judged by Equals and by harness-owned canonical forms (ordered / set / bag, type tagged) "
                      "or the eps comparison; reflexivity and symmetry are checked on every pair; all pairs of ~36 type-confusable atoms (incl. "
                      "constructed string/float twins) are enumerated in four embeddings under five option sets.",
        "level_note": "Set and bag equality in jd is decided by 64-bit hashes: absence of collisions that need a pre-image search is out of reach of "
                      "generated-input search; six constructible aliases of numbers are the listed finding D15.",
        "rule": "random leg: (x, permutation / duplication / permutation+duplication / Edit / one-confusable-swap of x), confusable roots, independent docs, "
                "under list, set, mset, setkeys:id, and Precision(eps) with numbers moved by {0, .5, .999999, 1, 1+2^-20, 2} x eps; patched leg: a' = Patch(a, a.Diff(x, opts1)) compared with b under opts2 against the canonical forms (a document returned by Patch is a document like any other); exhaustive leg: all ordered pairs of "
                "confusable atoms as root, [x], [x,x] and {\"k\":[1,x]}, plus the void document against every atom. Non-trivial: texts differ and the oracle says equal, "
                "or a near miss (equal under another reading, different JSON types, or equal within 1); distinct by (a, b, options).",
        "assumptions": ["canonical forms compare numbers exactly with -0 == 0"],
        "legs": [
            enum("exhaustive", "TestC04Exhaustive", {"shards": 4}, {"shards": 8}),
            rapid("random", "TestC04Random", {"checks": 50000, "shards": 4}, {"checks": 600000, "shards": 16, "timeout": 6000}),
            rapid("patched", "TestC04Patched", {"checks": 15000, "shards": 2}, {"checks": 150000, "shards": 8, "timeout": 6000}),
        ],
    },
    "C05": {
        "cli": True,
        "technique": "rapid random generation of boundary pairs, metamorphic oracle len(Diff)==0 <=> Equals; differential CLI exit status vs library Equals",
        "level_text": "The biconditional is evaluated on generated pairs that are rich in 'equal under the reading but textually different' cases "
                      "(permutations, duplications, numbers within eps) and in near misses, under list, set, mset, setkeys, the three merge "
                      "combinations and Precision; both jd binaries are run on generated files (JSON and YAML) and their exit status is compared "
                      "with Equals under the translated flags. Exploration over sampled pairs.",
        "level_note": "Equals is taken as given (C04 decides it). CLI cases whose diff cannot be rendered in the requested format (status 2) are skipped and counted.",
        "rule": "library leg: C04's boundary-pair generator (65%) and C01's pair generator (35%) x {list, set, mset, setkeys:id, merge, set+merge, mset+merge, prec:eps}; "
                "both a.Diff(b) and b.Diff(a) are compared with Equals. patched leg: the biconditional with a document returned by Patch on either side; merge+precision pairs; cli leg: the same pairs written to files, binary in {v2/jd, top-level}, flags translated from the "
                "option set plus -f jd|patch, -color, -yaml. Non-trivial: texts differ (both 'equal' and 'unequal' classes are counted separately); distinct by the full case.",
        "assumptions": ["flag -> option translation as documented in the README usage text"],
        "legs": [
            rapid("library", "TestC05Library", {"checks": 50000, "shards": 4}, {"checks": 500000, "shards": 16, "timeout": 6000}),
            rapid("patched", "TestC05Patched", {"checks": 15000, "shards": 2}, {"checks": 150000, "shards": 8, "timeout": 6000}),
            rapid("cli", "TestC05CLI", {"checks": 200, "shards": 6, "shrinktime": "10s"}, {"checks": 2500, "shards": 16, "timeout": 6000}),
        ],
    },
    "C07": {
        "technique": "rapid random generation biased to multi-hunk diffs + exhaustive small array pairs, oracle = per-hunk invariants over the replayed history and leave-one-out metamorphic check",
        "level_text": "Each hunk of a generated diff is replayed on the running document by the reference interpreter: removed values must be at the "
                      "addressed location, added values must be at the addressed location of b, removed and added collections must differ, "
                      "merge hunks must change the value they write; then every leave-one-out sub-diff is applied with jd and must not reproduce b. "
                      "All pairs of scalar arrays up to length 4 (thorough 5) are enumerated in list mode.",
        "level_note": "Leave-one-out uses jd's own Patch and Equals; an error or panic of the shortened diff counts as 'does not reproduce b'. "
                      "Precision is not part of this property's configurations.",
        "rule": "(a, b) with b = 2-6 edits of a (88%) or independent, keyed-set pairs for setkeys, under list, set, mset, setkeys:id, merge (null-free); "
                "exhaustive: all ordered pairs of arrays over 3 symbols up to length 4. Non-trivial: the diff has >= 2 hunks (leave-one-out has content); distinct by (a, b, options).",
        "assumptions": ["the reference interpreter gives the meaning of a hunk (ref/hunk.go)"],
        "legs": [
            enum("exhaustive", "TestC07Exhaustive", {"shards": 4}, {"shards": 16, "timeout": 6000}),
            rapid("random", "TestC07Random", {"checks": 12000, "shards": 4}, {"checks": 150000, "shards": 16, "timeout": 6000}),
        ],
    },
    "C08": {
        "technique": "rapid random generation of set/multiset/keyed diffs and perturbed targets, differential oracle = independent reference set/bag interpreter, one hunk at a time",
        "level_text": "Hunks of diffs made under SET, MULTISET and SetKeys are applied one at a time by jd and by a reference interpreter with set / bag / "
                      "keyed-member semantics to targets that permute, extend, shrink or alter the addressed array or the addressed member; jd must fail "
                      "exactly when the reference fails and agree (as a set / bag) otherwise. Exploration over sampled (diff, target) pairs.",
        "level_note": "Trusts ref/hunk.go (set: remove-must-exist, bag: multiplicities, keyed: unique member by key values then strict inside). Targets in which "
                      "several members match the keys of a keyed hunk are outside the statement and skipped (counted as out-of-domain).",
        "rule": "d = a.Diff(b, set | mset | setkeys:id | setkeys:id,k) on documents with arrays at the root, under keys and inside keyed members; all / one / a sub-sequence "
                "of the hunks; target = a, a permuted, Edit(a), or a with the array addressed by a drawn hunk perturbed (member dropped / duplicated / already added / changed inside, "
                "not an array, keyed member's non-key field changed or removed, key changed or missing). Non-trivial: a hunk addressed through {}, [] or a keyed member is evaluated on c != a.",
        "assumptions": ["the reference interpreter is the specification of set, multiset and keyed-member hunks"],
        "legs": [
            rapid("random", "TestC08Random", {"checks": 20000, "shards": 4}, {"checks": 250000, "shards": 16, "timeout": 6000}),
        ],
    },
    "C09": {
        "technique": "rapid random generation of list-mode diffs with hostile keys, translation validated against an independent RFC 6902 evaluator (differential + metamorphic on targets)",
        "level_text": "Every generated list-mode diff is rendered as JSON Patch; the text must be a well-formed RFC 6902 document, an evaluator written "
                      "from the RFC (pointers per RFC 6901) must turn a into b with it, and on perturbed targets where the native diff applies the JSON Patch "
                      "must apply with the same result; diffs with number-like keys or the key \"-\" must be refused. Exploration over sampled diffs and targets.",
        "level_note": "Trusts ref/rfc.go. Keys of 19 or more digits are a grey zone (whether they look like a number depends on the integer width): either outcome is accepted "
                      "and a rendered patch is still checked for meaning.",
        "rule": "(a, b) list-mode pairs, 50% with the nasty key pool (\"\", a/b, m~n, unicode, 1, 01, -, +1, ...), 1-5 edits, occasionally a void side; target c as in C03; refusal leg: diffs made under set / mset / setkeys:id whose paths address set members must make RenderPatch return an error. "
                "Non-trivial: the patch has a context test, or >= 2 adds at one pointer, or an escaped token; distinct by (a, b, c).",
        "assumptions": ["RFC 6902 'remove' of the whole document leaves the empty (void) document"],
        "legs": [
            rapid("random", "TestC09Random", {"checks": 25000, "shards": 4}, {"checks": 250000, "shards": 16, "timeout": 6000}),
            rapid("patched", "TestC09Patched", {"checks": 15000, "shards": 2}, {"checks": 150000, "shards": 8, "timeout": 6000}),
            rapid("refusal", "TestC09Refusal", {"checks": 10000, "shards": 2}, {"checks": 100000, "shards": 8, "timeout": 6000}),
        ],
    },
    "C10": {
        "technique": "rapid random generation of JSON Patch documents as subset-preserving variations of jd's own output, one-directional differential oracle against an independent RFC 6902 evaluator",
        "level_text": "jd's JSON Patch rendering of generated diffs is varied inside the supported subset (pair values, consistently shifted indices, dropped hunks, "
                      "dropped or changed context tests, '-' append) and applied to perturbed targets; whenever jd reads and applies a patch, the RFC 6902 evaluator "
                      "must apply it with the same result (jd may be stricter). Unvaried output must read back and reproduce b. Exploration over sampled patches and targets.",
        "level_note": "One-directional by the statement: rejections by jd are never violations. Trusts ref/rfc.go. A recovered panic counts as a rejection (reported under C13).",
        "rule": "p = RenderPatch(a.Diff(b)) for list-mode pairs (40% repetitive arrays over 1-2 symbols so that shifted hunks still match), unvaried 30%, otherwise 1-2 variations; "
                "varied values are drawn half of the time from what the target holds at that pointer; targets as in C03. Non-trivial: jd accepted a varied patch or a target c != a "
                "(the acceptance rate is in the class histogram); distinct by (patch, c).",
        "assumptions": ["'-' append variation only on hunks without context tests (tests at fixed indices are not adjacent to the end of the array)"],
        "legs": [
            rapid("random", "TestC10Random", {"checks": 25000, "shards": 4}, {"checks": 250000, "shards": 16, "timeout": 6000}),
            rapid("file", "TestC10File", {"checks": 4000, "shards": 2}, {"checks": 40000, "shards": 8, "timeout": 6000}),
        ],
    },
    "C11": {
        "technique": "rapid random generation of null-free pairs, translation validated against the RFC 7386 pseudocode (independent implementation)",
        "level_text": "Merge-mode diffs of generated null-free, unequal pairs are rendered as JSON Merge Patch and applied to a by a 12-line transcription of "
                      "the RFC 7386 pseudocode; the result must equal b under the array reading in force. Exploration over sampled pairs.",
        "level_note": "Trusts ref.MergePatch. Equality is decided by canonical forms under the reading (disagreement with jd's Equals is counted).",
        "rule": "(a, b) null-free, mostly object roots up to depth 4, b = 1-5 edits of a / {} / independent, empty objects sprinkled on both sides, under merge, set+merge, mset+merge; "
                "pairs that are Equal are skipped. Non-trivial: the patch contains a null or an empty object, or a container is replaced by a non-container (or vice versa); distinct by (a, b, options).",
        "assumptions": ["documents are null-free as the statement requires (null cannot be expressed in a merge patch)"],
        "legs": [
            rapid("random", "TestC11Random", {"checks": 30000, "shards": 4}, {"checks": 300000, "shards": 16, "timeout": 6000}),
        ],
    },
    "C12": {
        "cli": True,
        "technique": "exhaustive enumeration of a small (target, patch) grammar + rapid random generation, differential oracle = RFC 7386 pseudocode",
        "level_text": "Every (target, patch) pair over the grammar v ::= 1 | null | [1] | {} | {a:v} | {a:v,b:v} to depth 2 is read and applied by jd and by the RFC 7386 "
                      "pseudocode and the results must be identical; larger documents with injected nulls and empty objects are sampled. Complete for the enumerated grammar, exploration beyond it.",
        "level_note": "Trusts ref.MergePatch. Two root-level corner cases are listed findings (D16: patch null; D17: patch {} on a non-object target) and are excluded by construction of the verdict, counted in excluded_known.",
        "rule": "cli leg: both binaries run -f merge -p PATCH TARGET (35% with -yaml and a YAML target, 20% with the target on stdin), patches carrying per cent signs, DEL/NEL/U+FFFE, 2^63 and 2^64-2048, -0; the printed document is compared with the RFC algorithm; exhaustive leg: all ordered pairs of the 604 grammar values (thorough: leaf \"s\" added); chain leg: 2-4 merge patches applied one after the other to the value returned by the previous Patch (no re-parsing), compared with the folded RFC algorithm, with fixed probe patches on fresh documents after every step (state leaking between calls); random leg: targets = objects (70%) or any document, 30% sharing a chain of up to 6 nested objects with the patch, patch = Edit(target) with nulls and {} injected at drawn depths and new keys, "
                "or an independent value. Non-trivial: the patch contains a null or a nested {} , or it is an object applied to a non-object; distinct by (target, patch).",
        "assumptions": ["array values in results are compared as ordered lists"],
        "legs": [
            enum("exhaustive", "TestC12Exhaustive", {"shards": 8}, {"shards": 16, "timeout": 6000}),
            rapid("random", "TestC12Random", {"checks": 30000, "shards": 4}, {"checks": 300000, "shards": 16, "timeout": 6000}),
            rapid("chain", "TestC12Chain", {"checks": 15000, "shards": 2}, {"checks": 150000, "shards": 8, "timeout": 6000}),
            rapid("cli", "TestC12CLI", {"checks": 150, "shards": 4, "shrinktime": "10s"}, {"checks": 2500, "shards": 16, "timeout": 6000}),
            rapid("file", "TestC12File", {"checks": 4000, "shards": 2}, {"checks": 40000, "shards": 8, "timeout": 6000}),
            gofuzz("fuzz-merge", "FuzzC12Merge", 120),
        ],
    },
    "C14": {
        "cli": True,
        "technique": "rapid random generation of (inputs, binary, flag combination, mode), differential oracle = the library called in process with the translated options; metamorphic relations -o == stdout, stdin == file, diff | -p == b",
        "level_text": "Both binaries (and the top-level binary with -v2=false against the v1 library) are run on generated JSON / YAML files under generated flag combinations: stdout must be byte-identical to the "
                      "library's rendering, the exit status 0/1/2 must follow the library result, -o must put exactly those bytes into the file and nothing on stdout, stdin must be equivalent to a file, the printed diff "
                      "fed to -p must reproduce b (jd, patch, merge formats; JSON and YAML), -t translations must equal the library's and -git-diff-driver must print the diff of arguments 2 and 5 and exit 0. Exploration over sampled configurations.",
        "level_note": "The web UI (-port) and the GitHub action wrapper are not started. The merge round trip for a non-object a and b = {} is the listed finding D17. Each binary is compared with its own library (v1 honours precision differently from v2).",
        "rule": "diff mode 70% (then -o, stdin, -p, -p -o, -p stdin runs on the same case), translate 20% (6 translations, 12% with a mutated input), git-diff-driver 10%; binary in {v2/jd, top-level, top-level -v2=false}; -o always writes over an existing longer file, stdin is tried as a pipe and as a redirected file, -setkeys is written with and without blanks, 10% of the documents hold a 70 KB string; precision leg: in-memory round trip under Precision(eps); option set in "
                "{list, set, mset, setkeys:id, merge, set+merge, mset+merge, precision}; -f jd|patch, -yaml, -color. Non-trivial: at least one flag and a non-empty diff (translate: a successful translation of a non-empty input); distinct by the full case.",
        "assumptions": ["flag -> option translation as in the README usage text; Precision(p) is always passed, as both mains do"],
        "legs": [
            rapid("random", "TestC14Random", {"checks": 130, "shards": 8, "shrinktime": "15s"}, {"checks": 1500, "shards": 16, "timeout": 6000}),
            rapid("precision", "TestC14Precision", {"checks": 20000, "shards": 2}, {"checks": 200000, "shards": 8, "timeout": 6000}),
        ],
    },
    "C15": {
        "cli": True,
        "technique": "model-based generation of call histories over read-only API calls (rapid-drawn operation sequences), invariant = every earlier observation still holds; repetition legs for map-order determinism in process and across fresh processes",
        "level_text": "Histories of up to 12 read-only calls (Render, Render(COLOR), RenderPatch, RenderMerge, Json, Yaml, Equals, Diff again, merge re-read, Patch of a fresh copy) "
                      "are run against one document pair and one diff value; after each call the documents, the structural dump of the diff and every earlier return value "
                      "must be unchanged, and at the end the same in-memory diff must still turn a into b. Determinism: the same calls repeated 20 times on fresh parses (multi-key "
                      "objects, multi-key merge patches) and 5 times in fresh CLI processes must print identical bytes. Exploration over sampled histories.",
        "level_note": "In-process repetition relies on Go's per-iteration randomisation of map order (a 2-key object escapes 20 repetitions with probability 2^-19); "
                      "fresh processes are sampled through the CLI only.",
        "rule": "history leg: (a, b, options) from C01's generator (void allowed, wide objects), 1-12 drawn operations; determinism leg: the same plus a generated multi-key merge patch read 20 times; "
                "processes leg: jd a b and jd -t merge2jd run 5 times each. Non-trivial: RenderPatch on a diff with a multi-add hunk, or RenderMerge on a diff with a void addition, or a history of >= 3 calls "
                "on a non-empty diff; for the repetition legs an input with >= 2 object keys. Distinct by the full case.",
        "assumptions": ["Patch itself is not in the list of pure calls: it always gets a fresh parse of a"],
        "legs": [
            rapid("history", "TestC15History", {"checks": 20000, "shards": 4}, {"checks": 250000, "shards": 16, "timeout": 6000}),
            rapid("determinism", "TestC15Determinism", {"checks": 2500, "shards": 4}, {"checks": 12000, "shards": 16, "timeout": 6000}),
            rapid("processes", "TestC15Processes", {"checks": 25, "shards": 6, "shrinktime": "10s"}, {"checks": 400, "shards": 16, "timeout": 6000}),
        ],
    },
    "C16": {
        "cli": True,
        "technique": "rapid random generation of documents from a YAML-hostile string/number pool + pool enumeration, round-trip and differential oracles (jd writer -> jd reader; independent YAML writer -> jd reader vs JSON reader); CLI translation round trips",
        "level_text": "Documents whose keys and values come from a pool aimed at YAML's resolver and syntax (booleans, nulls, numbers in every base, dates, indicators, quotes, "
                      "multi-line, control and non-BMP characters) and extreme numbers are written as JSON and YAML by jd and read back, and written as YAML by an independent "
                      "double-quoting emitter and read by jd; all must give the document read from JSON. Both binaries must satisfy json2yaml|yaml2json = identity and -yaml diff + -p -yaml = b. "
                      "Every pool entry is enumerated in six embeddings. Exploration beyond the pool.",
        "level_note": "Says nothing about arbitrary third-party YAML: only YAML written by jd or by the harness emitter is read. jd's JSON text is deliberately not fed to the YAML reader "
                      "(yaml.v2 is a YAML 1.1 parser and JSON is not a subset of it).",
        "rule": "library leg: documents up to depth 3 with 60% pool keys, pool strings, concatenations of two pool strings, 19 extreme numbers; pool leg: each of the ~150 pool strings as root, element, value, key, key+value "
                "and nested, each number as root / element / value; cli leg: (a, b) pool documents, binary in {v2/jd, top-level}. Non-trivial: the document contains a pool string or a non-integral / large number; distinct by document.",
        "assumptions": ["equality of documents is ordered-array deep equality on the JSON text jd renders"],
        "legs": [
            enum("pool", "TestC16Pool", {"shards": 2}, {"shards": 2}),
            rapid("library", "TestC16Library", {"checks": 30000, "shards": 4}, {"checks": 300000, "shards": 16, "timeout": 6000}),
            rapid("cli", "TestC16CLI", {"checks": 40, "shards": 6, "shrinktime": "10s"}, {"checks": 800, "shards": 16, "timeout": 6000}),
        ],
    },
    "C13": {
        "cli": True,
        "technique": "rapid structured generation of damaged diffs / JSON Patch / merge patch documents against real target paths, mutation-based byte-level generation, hostile constant enumeration, native coverage-guided go fuzzing (thorough), oracle = recover() around every public entry point and process-level crash detection",
        "level_text": "Structurally valid diffs whose paths are taken from the target and then damaged (negative, fractional, huge, off-by-one indices, wrong container kinds, set paths on non-arrays, "
                      "multi-value hunks on objects, over-long context), JSON Patch documents with hostile pointers and op shapes, arbitrary merge patches and byte-level mutations of valid texts "
                      "are read and, when read, applied and rendered in every format with recover() around each call; patched documents must survive Json()/Yaml(). Both binaries are run on such "
                      "files in every input role: status must be 0/1/2, status 2 must come with an empty stdout and a message, and stderr must never show a Go stack trace. "
                      "The thorough tier adds coverage-guided native fuzzing of five targets with the same oracle inside. Exploration; absence of crashes is not established.",
        "level_note": "Native fuzzing cannot be pinned to VERIF_SEED; a saved crasher is the reproducible unit. The -v2=false mode (v1 library) is outside this property. "
                      "A status-2 message that quotes multi-line input is counted (multi-line-message), not reported.",
        "rule": "structure leg: 1-2 hunks on real paths of a generated target with one of 14 damages, as DiffElements or as native text; patch leg: 1-5 ops incl. unsupported ones, 35% hostile pointers; merge leg: related and unrelated patch documents; "
                "bytes leg: 1-3 mutations (byte/line edits, hostile numbers, spliced hostile texts) of valid diff / patch / merge / JSON / YAML texts or of ~130 hostile constants; constants leg: every constant x 5 readers x 7 targets; scale leg: documents holding one string of 1-70 KB that is replaced, every call must allocate less than 400 bytes per input byte + 4 MB (a quadratic table would be gigabytes and the process would be killed); "
                "cli leg: diff / patch / translate invocations with such files as FILE1, FILE2 or stdin. Non-trivial: the input was accepted by the reader and reached Patch or the renderers (cli: the process reported an error); distinct by the full case.",
        "assumptions": ["a Go panic in the CLI is recognised by 'panic:', 'goroutine ' or 'runtime error' on stderr (its exit status is also 2)"],
        "legs": [
            enum("constants", "TestC13Constants", {"shards": 2}, {"shards": 2}),
            enum("scale", "TestC13Scale", {"shards": 1}, {"shards": 1}),
            rapid("structure", "TestC13Structure", {"checks": 25000, "shards": 4}, {"checks": 300000, "shards": 16, "timeout": 6000}),
            rapid("patch", "TestC13Patch", {"checks": 15000, "shards": 2}, {"checks": 200000, "shards": 16, "timeout": 6000}),
            rapid("merge", "TestC13Merge", {"checks": 10000, "shards": 2}, {"checks": 100000, "shards": 16, "timeout": 6000}),
            rapid("bytes", "TestC13Bytes", {"checks": 25000, "shards": 4}, {"checks": 400000, "shards": 16, "timeout": 6000}),
            rapid("cli", "TestC13CLI", {"checks": 150, "shards": 4, "shrinktime": "10s"}, {"checks": 3000, "shards": 16, "timeout": 6000}),
            gofuzz("fuzz-diff", "FuzzC13Diff", 90),
            gofuzz("fuzz-patch", "FuzzC13Patch", 60),
            gofuzz("fuzz-merge", "FuzzC13Merge", 30),
            gofuzz("fuzz-json", "FuzzC13Json", 30),
            gofuzz("fuzz-yaml", "FuzzC13Yaml", 60),
        ],
    },
    "C17": {
        "cli": True,
        "technique": "rapid random generation of pairs and v1 metadata, round-trip oracle (in memory and through Render/ReadDiffString) judged by v1 Equals, metamorphic oracle len(Diff)==0 <=> Equals",
        "level_text": "The v1 library (package lib) is driven with generated pairs under list, set, multiset, setkeys, merge (null-free) and precision metadata: the diff is applied in memory and "
                      "after a text round trip (which must re-render identically) and must reproduce b; the diff must be empty exactly when Equals holds. Exploration over sampled pairs.",
        "level_note": "Equality is v1's own Equals, as the statement says; v1 shares the hash-based set equality of v2 without type tags, which this property (coherence, not correctness of Equals) does not judge.",
        "rule": "C01's pair generator with list-heavy profiles (arrays growing, shrinking and changing in place give -1 append indices and reverse-order deletions), C04's boundary pairs (20%) and "
                "precision pairs (12%), under list, set, mset, setkeys:id, set+setkeys:id, merge, prec:eps, 30% with the nasty key / payload pools; cli leg: the top-level binary with -v2=false prints the diff of payload-heavy documents, exits 0 iff Equals, the text equals the v1 library rendering and -p turns a into b. Non-trivial: texts differ and (the diff is non-empty or the documents are Equal); distinct by (a, b, metadata).",
        "assumptions": ["a fresh parse of a for every Patch"],
        "legs": [
            rapid("random", "TestC17Random", {"checks": 30000, "shards": 4}, {"checks": 300000, "shards": 16, "timeout": 6000}),
            rapid("cli", "TestC17CLI", {"checks": 120, "shards": 4, "shrinktime": "10s"}, {"checks": 2000, "shards": 16, "timeout": 6000}),
        ],
    },
    "C18": {
        "technique": "rapid random generation of v1 list-mode and merge-mode diffs, translation validated against independent RFC 6902 / RFC 7386 evaluators, plus read-back round trip",
        "level_text": "v1 JSON Patch and JSON Merge Patch renderings of generated diffs are evaluated on a by the harness's RFC 6902 evaluator and RFC 7386 pseudocode and must yield b; "
                      "read back with the v1 readers and applied to a they must yield b as well. Keys that look like integers and keys needing escaping are generated on purpose. Exploration over sampled pairs.",
        "level_note": "Trusts ref/rfc.go. The read-back of the merge patch {} on a non-object a is the listed finding D17 (v1 has the same root special case as v2).",
        "rule": "list leg: C09's pairs with the nasty key pool (integer-looking keys are not refused by v1; only the key \"-\" is); merge leg: C11's null-free unequal pairs under v1 MERGE. "
                "Non-trivial: a patch with a context-free multi-op shape, an escaped or integer-looking token, an append token, or a merge patch with a null or {}; distinct by (a, b, metadata).",
        "assumptions": ["RFC 6902 'remove' of the whole document leaves the empty (void) document"],
        "legs": [
            rapid("random", "TestC18Random", {"checks": 30000, "shards": 4}, {"checks": 300000, "shards": 16, "timeout": 6000}),
            rapid("patched", "TestC18Patched", {"checks": 15000, "shards": 2}, {"checks": 150000, "shards": 8, "timeout": 6000}),
        ],
    },
    "C06": {
        "technique": "exhaustive enumeration of small array pairs + rapid random generation, oracle = independent LCS optimum and reference hunk interpreter",
        "level_text": "Every ordered pair of arrays over a small alphabet up to a length bound is enumerated (complete for that universe) and "
                      "larger / nested / container-valued arrays are sampled; minimality is decided against an independently computed LCS and "
                      "context against a reference interpreter. Exploration, not proof: beyond the enumerated bound the property is sampled.",
        "level_note": "Trusts the harness LCS and reference interpreter (ref/hunk.go); arrays longer than 30 or alphabets above 6 symbols are not generated.",
        "rule": "exhaustive leg: every ordered pair of arrays over a 3-symbol alphabet up to length 5 (thorough: 4 symbols, length 6), "
                "at the root, under a key and inside an outer array; random leg: arrays up to length 30 over 2-6 symbols, arrays of "
                "containers edited at the top, and 'one container changed inside' pairs. Oracle: sum of removes/adds of the hunks "
                "addressed to the array vs len-LCS from an independent O(nm) LCS; exactly one before and one after line per index "
                "hunk, checked against the running document by the reference interpreter; script must lead to b. Non-trivial: "
                "0 < LCS < min(len) or >= 2 hunks or an inner-change pair; distinct by (a, b, embedding).",
        "assumptions": ["element equality of the reference LCS is canonical deep equality of harness values"],
        "legs": [
            enum("exhaustive", "TestC06Exhaustive", {"shards": 8}, {"shards": 16, "timeout": 6000}),
            rapid("random", "TestC06Random", {"checks": 20000, "shards": 2}, {"checks": 250000, "shards": 16, "timeout": 6000}),
        ],
    },
}
