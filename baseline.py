#!/usr/bin/env python3
"""Runs the repository's own test suite (both modules, no build tag) and compares
the passing tests with /root/.vp/BASELINE.json (stable_pass). Exit 0 iff every
baseline test passed."""
import json
import os
import subprocess
import sys

env = dict(os.environ)
env["GOPROXY"] = "off"
env["GOTOOLCHAIN"] = "auto"
env.pop("GOSUMDB", None)
env["GOFLAGS"] = "-mod=mod"
passed, failed = set(), set()
for mod in ("/repo", "/repo/v2"):
    p = subprocess.run(["go", "test", "-json", "-vet=off", "-count=1", "-timeout", "25m", "./..."],
                       cwd=mod, env=env, stdout=subprocess.PIPE, stderr=subprocess.STDOUT, text=True)
    for line in p.stdout.splitlines():
        try:
            ev = json.loads(line)
        except ValueError:
            continue
        if ev.get("Test") and ev.get("Action") in ("pass", "fail"):
            name = "%s::%s" % (ev["Package"], ev["Test"])
            (passed if ev["Action"] == "pass" else failed).add(name)
want = None
try:
    want = set(json.load(open("/root/.vp/BASELINE.json"))["stable_pass"])
except (OSError, KeyError, ValueError):
    pass
print("passed=%d failed=%d" % (len(passed), len(failed)))
for f in sorted(failed)[:50]:
    print("FAIL " + f)
if want is not None:
    missing = sorted(want - passed)
    print("baseline=%d missing=%d" % (len(want), len(missing)))
    for m in missing[:50]:
        print("MISSING " + m)
    sys.exit(0 if not missing and not failed else 1)
sys.exit(0 if not failed and passed else 1)
