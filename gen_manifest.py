#!/usr/bin/env python3
"""Writes MANIFEST.json from checks_config.py (claimed checks) and the property list."""
import json
import os
import sys

ROOT = os.path.dirname(os.path.abspath(__file__))
sys.path.insert(0, ROOT)
from checks_config import CHECKS, NOT_APPLICABLE  # noqa: E402

props = [json.loads(l)["id"] for l in open(os.path.join(ROOT, "properties.jsonl")) if l.strip()]
checks = []
for pid in props:
    if pid not in CHECKS:
        continue
    c = CHECKS[pid]
    checks.append({
        "property_id": pid,
        "quick_cmd": "./check %s quick" % pid,
        "thorough_cmd": "./check %s thorough" % pid,
        "evidence_file": "/verif/evidence/%s.json" % pid,
        "replay_cmd_template": "./check --replay {path}",
        "engine": "verifjd-harness",
        "level_claimed": {
            "category": "exploration",
            "text": c["level_text"],
            "design_ref": c.get("design_ref", "DESIGN.md section 3, " + pid),
        },
        "level_note": c["level_note"],
        "technique": c["technique"],
    })
na = [{"property_id": pid, "reason": NOT_APPLICABLE.get(pid, "check not built yet in this session; no claim is made")} for pid in props if pid not in CHECKS]
manifest = {
    "version": 1,
    "setup_cmd": "./check --build",
    "hooks": {
        "guard": "verif",
        "enable": "no hook is needed: every observation point is public API or process behaviour; checks build /repo's working tree through replace directives in /verif/harness/go.mod (go build tag 'verif' is reserved and unused)",
        "baseline_off_cmd": "./baseline.py",
        "source_commits": [],
        "add_only": True,
    },
    "engines": [{
        "name": "verifjd-harness",
        "path": "/verif/harness",
        "serves_properties": [c["property_id"] for c in checks],
        "kind_free_text": "Go module (rapid v1.3.0 generators and state machines, exhaustive enumerators, native go fuzz targets) with harness-owned reference interpreters; python3 driver /verif/check shards, merges coverage and writes evidence",
    }],
    "checks": checks,
    "notes": "Known findings and fixed defects: /verif/known-findings.txt (inputs under /verif/known/). Exit 2 of a check means inconclusive (build failure, timeout, short case count), never a verdict.",
    "not_applicable": na,
}
with open(os.path.join(ROOT, "MANIFEST.json"), "w") as f:
    json.dump(manifest, f, indent=1)
    f.write("\n")
print("claimed:", [c["property_id"] for c in checks])
